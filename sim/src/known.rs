//! Known-findings file: committed under /verif, never written at run time.
//!
//! Lines:  `finding: property=<id> class=<violation class> <what fails>`
//!         `fixed: property=<id> <commit> <what failed>`   (suppresses nothing)
//! A finding matches a violation only if property and class are equal *and* the class's
//! discriminating predicate holds on the minimised scenario (the executors put the
//! predicate into the class name, and it is re-evaluated here).

use crate::orchestrate::ReplayFile;

#[derive(Clone, Debug)]
pub struct Known {
    pub property: String,
    pub class: String,
    pub text: String,
}

pub fn load() -> Vec<Known> {
    let path = std::env::var("HPOSIM_KNOWN").unwrap_or_else(|_| "/verif/known_findings.txt".to_string());
    let Ok(t) = std::fs::read_to_string(path) else { return vec![] };
    let mut v = vec![];
    for line in t.lines() {
        let Some(rest) = line.strip_prefix("finding:") else { continue };
        let rest = rest.trim();
        let mut property = String::new();
        let mut class = String::new();
        let mut words = vec![];
        for w in rest.split_whitespace() {
            if let Some(p) = w.strip_prefix("property=") {
                property = p.to_string();
            } else if let Some(c) = w.strip_prefix("class=") {
                class = c.to_string();
            } else {
                words.push(w);
            }
        }
        if !property.is_empty() && !class.is_empty() {
            v.push(Known { property, class, text: format!("class={} {}", v_class(&rest), words.join(" ")) });
        }
    }
    v
}

fn v_class(rest: &str) -> String {
    rest.split_whitespace().find_map(|w| w.strip_prefix("class=")).unwrap_or("").to_string()
}

pub fn matching<'a>(k: &'a [Known], rf: &ReplayFile) -> Option<&'a Known> {
    k.iter().find(|x| x.property == rf.property && x.class == rf.class && predicate_holds(rf))
}

/// Re-evaluate the discriminating predicate encoded in the class on the minimised scenario
fn predicate_holds(rf: &ReplayFile) -> bool {
    if rf.class.contains("[source-categories-not-default]") {
        return crate::props::c07::source_has_nondefault_categories(&rf.scenario);
    }
    // classes without an encoded predicate are never suppressible
    false
}

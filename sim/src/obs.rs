//! `Obs`: a canonical value produced by walking the whole public read API of an
//! `Ontology` under `catch_unwind`, and its structural diff.

use hpo::annotations::{AnnotationId, Disease};
use hpo::Ontology;
use serde::{Deserialize, Serialize};
use std::collections::BTreeMap;
use std::panic::{catch_unwind, AssertUnwindSafe};

#[derive(Clone, Debug, PartialEq, Eq, Serialize, Deserialize)]
pub struct TermObs {
    pub id: u32,
    pub name: String,
    pub obsolete: bool,
    pub replacement: Option<u32>,
    pub replaced_by: Option<u32>,
    pub parents: Vec<u32>,
    pub children: Vec<u32>,
    pub all_parents: Vec<u32>,
    pub genes: Vec<u32>,
    pub omim: Vec<u32>,
    pub orpha: Vec<u32>,
    pub ic: [u32; 3],
    pub is_modifier: bool,
    pub categories: Vec<u32>,
}

#[derive(Clone, Debug, PartialEq, Eq, Serialize, Deserialize)]
pub struct RecObs {
    pub id: u32,
    pub name: String,
    pub terms: Vec<u32>,
}

#[derive(Clone, Debug, Default, PartialEq, Eq, Serialize, Deserialize)]
pub struct Probes {
    pub unsorted_groups: u32,
    pub spilled_ancestor_sets: u32,
    pub panics: u32,
}

#[derive(Clone, Debug, PartialEq, Eq, Serialize, Deserialize)]
pub struct Obs {
    pub version: String,
    pub len: usize,
    /// ids yielded by iteration, sorted (a multiset: duplicates stay)
    pub iter_ids: Vec<u32>,
    pub terms: Vec<TermObs>,
    pub genes: Vec<RecObs>,
    pub omim: Vec<RecObs>,
    pub orpha: Vec<RecObs>,
    pub categories: Vec<u32>,
    pub modifier: Vec<u32>,
    /// bit patterns of built-in similarity scores (7 algorithms x 3 kinds) for a fixed sample of ordered term pairs.
    /// Never compared with a model (the formulas are C04, not claimed); only between replicas of the same facts: a
    /// score must be a function of the facts, not of hash-iteration or delivery order.
    #[serde(default)]
    pub sims: Vec<u32>,
    /// (owner field, message): inconsistencies between accessors, or panics, found by the walk
    pub anomalies: Vec<(String, String)>,
    #[serde(default)]
    pub probes: Probes,
}

fn panic_msg(e: Box<dyn std::any::Any + Send>) -> String {
    if let Some(s) = e.downcast_ref::<&str>() {
        (*s).to_string()
    } else if let Some(s) = e.downcast_ref::<String>() {
        s.clone()
    } else {
        "panic".to_string()
    }
}

pub fn guarded<T>(f: impl FnOnce() -> T) -> Result<T, String> {
    catch_unwind(AssertUnwindSafe(f)).map_err(panic_msg)
}

fn sorted(mut v: Vec<u32>, probes: &mut Probes) -> Vec<u32> {
    if v.windows(2).any(|w| w[0] >= w[1]) {
        probes.unsorted_groups += 1;
        v.sort_unstable();
    }
    v
}

/// ids of a group in the order the group yields them (raw: a reader of the API sees this order)
fn group(g: &hpo::term::HpoGroup, probes: &mut Probes) -> Vec<u32> {
    let v: Vec<u32> = g.iter().map(|i| i.as_u32()).collect();
    if v.windows(2).any(|w| w[0] >= w[1]) {
        probes.unsorted_groups += 1;
    }
    v
}

/// every id a group yields must also be found by `contains` (membership is how the relations are queried)
fn members_found(g: &hpo::term::HpoGroup) -> Option<u32> {
    g.iter().find(|i| !g.contains(i)).map(|i| i.as_u32())
}

pub fn observe(o: &Ontology) -> Obs {
    let mut probes = Probes::default();
    let mut anomalies: Vec<(String, String)> = vec![];
    let version = guarded(|| o.hpo_version()).unwrap_or_else(|e| {
        anomalies.push(("version".into(), e));
        String::new()
    });
    let len = o.len();
    let mut iter_ids: Vec<u32> = match guarded(|| o.iter().map(|t| t.id().as_u32()).collect::<Vec<u32>>()) {
        Ok(v) => v,
        Err(e) => {
            anomalies.push(("iter".into(), format!("panic: {e}")));
            probes.panics += 1;
            vec![]
        }
    };
    iter_ids.sort_unstable();
    // `into_iter` and `hpos` must agree with `iter`
    if let Ok(mut v) = guarded(|| (&*o).into_iter().map(|t| t.id().as_u32()).collect::<Vec<u32>>()) {
        v.sort_unstable();
        if v != iter_ids {
            anomalies.push(("iter".into(), "into_iter differs from iter".into()));
        }
    }
    if let Ok(mut v) = guarded(|| o.hpos().map(|t| t.id().as_u32()).collect::<Vec<u32>>()) {
        v.sort_unstable();
        if v != iter_ids {
            anomalies.push(("iter".into(), "hpos() differs from iter()".into()));
        }
    }
    if o.is_empty() != (len == 0) {
        anomalies.push(("len".into(), format!("is_empty() = {} with len() = {len}", o.is_empty())));
    }
    let mut uniq = iter_ids.clone();
    uniq.dedup();
    let mut terms: Vec<TermObs> = vec![];
    for id in uniq {
        let Some(t) = o.hpo(id) else {
            anomalies.push(("iter".into(), format!("iterated id {id} does not resolve through hpo()")));
            continue;
        };
        let mut a = |owner: &str, m: String| anomalies.push((owner.to_string(), format!("term {id}: {m}")));
        let parents = group(t.parent_ids(), &mut probes);
        let children = group(t.children_ids(), &mut probes);
        let all_parents = group(t.all_parent_ids(), &mut probes);
        if all_parents.len() > 30 {
            probes.spilled_ancestor_sets += 1;
        }
        for (owner, g) in [("term.parents", t.parent_ids()), ("term.children", t.children_ids()), ("term.all_parents", t.all_parent_ids())] {
            if let Some(x) = members_found(g) {
                a(owner, format!("the id group yields {x} but contains({x}) is false"));
            }
        }
        // resolving iterators
        for (owner, ids, which) in [("term.parents", &parents, 0u8), ("term.children", &children, 1), ("term.all_parents", &all_parents, 2)] {
            let r = guarded(|| {
                let it = match which {
                    0 => t.parents(),
                    1 => t.children(),
                    _ => t.all_parents(),
                };
                let mut v: Vec<u32> = it.map(|x| x.id().as_u32()).collect();
                v.sort_unstable();
                v
            });
            match r {
                Ok(v) => {
                    let mut want = ids.clone();
                    want.sort_unstable();
                    if v != want {
                        a(owner, format!("resolving iterator yields {v:?}, id group is {ids:?}"));
                    }
                }
                Err(e) => {
                    probes.panics += 1;
                    a(owner, format!("resolving iterator panicked: {e}"));
                }
            }
        }
        let mut genes: Vec<u32> = t.gene_ids().iter().map(|g| g.as_u32()).collect();
        genes.sort_unstable();
        let mut omim: Vec<u32> = t.omim_disease_ids().iter().map(|g| g.as_u32()).collect();
        omim.sort_unstable();
        let mut orpha: Vec<u32> = t.orpha_disease_ids().iter().map(|g| g.as_u32()).collect();
        orpha.sort_unstable();
        match guarded(|| {
            let mut v: Vec<u32> = t.genes().map(|g| g.id().as_u32()).collect();
            v.sort_unstable();
            v
        }) {
            Ok(v) => {
                if v != genes {
                    a("term.genes", format!("genes() yields {v:?}, gene_ids is {genes:?}"));
                }
            }
            Err(e) => {
                probes.panics += 1;
                a("term.genes", format!("genes() panicked: {e}"));
            }
        }
        match guarded(|| {
            let mut v: Vec<u32> = t.omim_diseases().map(|g| g.id().as_u32()).collect();
            v.sort_unstable();
            v
        }) {
            Ok(v) => {
                if v != omim {
                    a("term.omim", format!("omim_diseases() yields {v:?}, ids {omim:?}"));
                }
            }
            Err(e) => {
                probes.panics += 1;
                a("term.omim", format!("omim_diseases() panicked: {e}"));
            }
        }
        match guarded(|| {
            let mut v: Vec<u32> = t.orpha_diseases().map(|g| g.id().as_u32()).collect();
            v.sort_unstable();
            v
        }) {
            Ok(v) => {
                if v != orpha {
                    a("term.orpha", format!("orpha_diseases() yields {v:?}, ids {orpha:?}"));
                }
            }
            Err(e) => {
                probes.panics += 1;
                a("term.orpha", format!("orpha_diseases() panicked: {e}"));
            }
        }
        let icv = t.information_content();
        let ic = [icv.gene().to_bits(), icv.omim_disease().to_bits(), icv.orpha_disease().to_bits()];
        use hpo::term::InformationContentKind as K;
        if icv.get_kind(&K::Gene).to_bits() != ic[0] || icv.get_kind(&K::Omim).to_bits() != ic[1] || icv.get_kind(&K::Orpha).to_bits() != ic[2] {
            a("term.ic", "get_kind disagrees with the direct accessors".into());
        }
        let replaced_by = match guarded(|| t.replaced_by().map(|x| x.id().as_u32())) {
            Ok(v) => v,
            Err(e) => {
                probes.panics += 1;
                a("term.replaced_by", format!("panicked: {e}"));
                None
            }
        };
        let is_modifier = guarded(|| t.is_modifier()).unwrap_or_else(|e| {
            probes.panics += 1;
            a("term.is_modifier", format!("panicked: {e}"));
            false
        });
        let categories = guarded(|| t.categories().iter().map(|c| c.as_u32()).collect::<Vec<u32>>()).unwrap_or_else(|e| {
            probes.panics += 1;
            a("term.categories", format!("panicked: {e}"));
            vec![]
        });
        if t.id().as_u32() != id {
            a("lookup", format!("hpo({id}) returned term {}", t.id().as_u32()));
        }
        terms.push(TermObs {
            id,
            name: t.name().to_string(),
            obsolete: t.is_obsolete(),
            replacement: t.replacement_id().map(|x| x.as_u32()),
            replaced_by,
            parents,
            children,
            all_parents,
            genes,
            omim,
            orpha,
            ic,
            is_modifier,
            categories,
        });
    }
    // records
    let mut genes: Vec<RecObs> = o
        .genes()
        .map(|g| RecObs { id: g.id().as_u32(), name: g.name().to_string(), terms: group(g.hpo_terms(), &mut probes) })
        .collect();
    genes.sort_by_key(|r| r.id);
    let mut omim: Vec<RecObs> = o
        .omim_diseases()
        .map(|g| RecObs { id: g.id().as_u32(), name: g.name().to_string(), terms: group(g.hpo_terms(), &mut probes) })
        .collect();
    omim.sort_by_key(|r| r.id);
    let mut orpha: Vec<RecObs> = o
        .orpha_diseases()
        .map(|g| RecObs { id: g.id().as_u32(), name: g.name().to_string(), terms: group(g.hpo_terms(), &mut probes) })
        .collect();
    orpha.sort_by_key(|r| r.id);
    for g in o.genes() {
        if let Some(x) = members_found(g.hpo_terms()) {
            anomalies.push(("gene.terms".into(), format!("gene {}: hpo_terms() yields {x} but contains({x}) is false", g.id().as_u32())));
        }
    }
    for g in o.omim_diseases() {
        if let Some(x) = members_found(g.hpo_terms()) {
            anomalies.push(("omim.terms".into(), format!("omim {}: hpo_terms() yields {x} but contains({x}) is false", g.id().as_u32())));
        }
    }
    for g in o.orpha_diseases() {
        if let Some(x) = members_found(g.hpo_terms()) {
            anomalies.push(("orpha.terms".into(), format!("orpha {}: hpo_terms() yields {x} but contains({x}) is false", g.id().as_u32())));
        }
    }
    // further accessors that resolve ids and panic on a dangling one: rendering helpers, record -> HpoSet -> terms,
    // group -> terms (only on small ontologies: they are linear in everything)
    if terms.len() <= 400 {
        if let Err(e) = guarded(|| (o.as_mermaid().len(), o.as_graphviz("dot").len())) {
            probes.panics += 1;
            anomalies.push(("term.children".into(), format!("as_mermaid / as_graphviz panicked: {e}")));
        }
        for g in o.genes().take(60) {
            if let Err(e) = guarded(|| (g.to_hpo_set(o).iter().count(), g.hpo_terms().terms(o).count())) {
                probes.panics += 1;
                anomalies.push(("gene.terms".into(), format!("gene {}: to_hpo_set / terms() panicked: {e}", g.id().as_u32())));
            }
        }
        for g in o.omim_diseases().take(60) {
            if let Err(e) = guarded(|| (g.to_hpo_set(o).iter().count(), g.hpo_terms().terms(o).count())) {
                probes.panics += 1;
                anomalies.push(("omim.terms".into(), format!("omim {}: to_hpo_set / terms() panicked: {e}", g.id().as_u32())));
            }
        }
        for g in o.orpha_diseases().take(60) {
            if let Err(e) = guarded(|| (g.to_hpo_set(o).iter().count(), g.hpo_terms().terms(o).count())) {
                probes.panics += 1;
                anomalies.push(("orpha.terms".into(), format!("orpha {}: to_hpo_set / terms() panicked: {e}", g.id().as_u32())));
            }
        }
    }
    // by-id lookups must return the record the iterators show, symbol == name
    for g in &genes {
        match o.gene(&g.id.into()) {
            Some(x) if x.id().as_u32() == g.id && x.name() == g.name && x.symbol() == g.name => {}
            _ => anomalies.push(("gene.lookup".into(), format!("gene({}) does not return the iterated record", g.id))),
        }
        // every directly annotated term must resolve in this ontology
        for t in &g.terms {
            if o.hpo(*t).is_none() {
                anomalies.push(("gene.terms".into(), format!("gene {} lists term {} which does not resolve", g.id, t)));
            }
        }
    }
    for g in &omim {
        match o.omim_disease(&g.id.into()) {
            Some(x) if x.id().as_u32() == g.id && x.name() == g.name => {}
            _ => anomalies.push(("omim.lookup".into(), format!("omim_disease({}) does not return the iterated record", g.id))),
        }
        for t in &g.terms {
            if o.hpo(*t).is_none() {
                anomalies.push(("omim.terms".into(), format!("omim {} lists term {} which does not resolve", g.id, t)));
            }
        }
    }
    for g in &orpha {
        match o.orpha_disease(&g.id.into()) {
            Some(x) if x.id().as_u32() == g.id && x.name() == g.name => {}
            _ => anomalies.push(("orpha.lookup".into(), format!("orpha_disease({}) does not return the iterated record", g.id))),
        }
        for t in &g.terms {
            if o.hpo(*t).is_none() {
                anomalies.push(("orpha.terms".into(), format!("orpha {} lists term {} which does not resolve", g.id, t)));
            }
        }
    }
    let categories = group(o.categories(), &mut probes);
    let modifier = group(o.modifier(), &mut probes);
    let mut sims: Vec<u32> = vec![];
    if terms.len() >= 2 && terms.len() <= 60 {
        use hpo::similarity::Builtins as B;
        use hpo::term::InformationContentKind as K;
        let ids: Vec<u32> = terms.iter().map(|t| t.id).collect();
        let n = ids.len();
        for i in 0..n.min(10) {
            let (a, b) = (ids[i], ids[(i * 7 + 3) % n]);
            let (Some(ta), Some(tb)) = (o.hpo(a), o.hpo(b)) else { continue };
            for k in [K::Gene, K::Omim, K::Orpha] {
                // Distance is left out: its path search is exponential on diamond ladders
                for algo in [B::GraphIc(k), B::InformationCoefficient(k), B::Jc(k), B::Lin(k), B::Mutation(k), B::Relevance(k), B::Resnik(k)] {
                    match guarded(|| ta.similarity_score(&tb, &algo).to_bits()) {
                        Ok(v) => sims.push(v),
                        Err(_) => sims.push(u32::MAX),
                    }
                }
            }
        }
    }
    Obs { version, len, iter_ids, terms, genes, omim, orpha, categories, modifier, sims, anomalies, probes }
}

#[derive(Clone, Debug, Serialize, Deserialize)]
pub struct Diff {
    pub field: String,
    pub key: String,
    pub a: String,
    pub b: String,
}

#[derive(Clone, Copy, Debug, PartialEq, Eq)]
pub enum IcCmp {
    /// bit-identical (replica vs replica)
    Bits,
    /// within 1 ulp, -0.0 == 0.0 (replica vs model)
    Ulp,
}

fn ic_eq(a: u32, b: u32, m: IcCmp) -> bool {
    if a == b {
        return true;
    }
    if m == IcCmp::Bits {
        return false;
    }
    let (fa, fb) = (f32::from_bits(a), f32::from_bits(b));
    if fa == fb {
        return true; // covers -0.0 vs 0.0
    }
    if !fa.is_finite() || !fb.is_finite() {
        return false;
    }
    if fa.is_sign_negative() != fb.is_sign_negative() {
        return false;
    }
    (i64::from(a) - i64::from(b)).abs() <= 1
}

fn d(field: &str, key: impl ToString, a: impl std::fmt::Debug, b: impl std::fmt::Debug) -> Diff {
    Diff { field: field.to_string(), key: key.to_string(), a: format!("{a:?}"), b: format!("{b:?}") }
}

pub fn clip(s: &str) -> String {
    if s.len() <= 300 {
        return s.to_string();
    }
    let mut e = 300;
    while !s.is_char_boundary(e) {
        e -= 1;
    }
    format!("{}…", &s[..e])
}

/// All differences between two observations (capped). `a` is "left" / expected.
/// Id groups are compared as sets (the model is always ascending; sortedness of a group is C12's business).
pub fn diff(a: &Obs, b: &Obs, icm: IcCmp) -> Vec<Diff> {
    diff_opts(a, b, icm, false)
}

fn canon(o: &Obs) -> Obs {
    let mut c = o.clone();
    for t in &mut c.terms {
        t.parents.sort_unstable();
        t.children.sort_unstable();
        t.all_parents.sort_unstable();
    }
    for r in c.genes.iter_mut().chain(c.omim.iter_mut()).chain(c.orpha.iter_mut()) {
        r.terms.sort_unstable();
    }
    c.categories.sort_unstable();
    c.modifier.sort_unstable();
    c
}

/// `raw_order`: two replicas of the same facts must also yield every id group in the same order
/// (C07 / C16: only the iteration order of terms, genes and diseases may differ)
pub fn diff_opts(a: &Obs, b: &Obs, icm: IcCmp, raw_order: bool) -> Vec<Diff> {
    if !raw_order {
        let unsorted = |o: &Obs| o.probes.unsorted_groups > 0;
        if unsorted(a) || unsorted(b) {
            return diff_raw(&canon(a), &canon(b), icm);
        }
    }
    diff_raw(a, b, icm)
}

fn diff_raw(a: &Obs, b: &Obs, icm: IcCmp) -> Vec<Diff> {
    let mut out = vec![];
    if a.version != b.version {
        out.push(d("version", "", &a.version, &b.version));
    }
    if a.len != b.len {
        out.push(d("len", "", a.len, b.len));
    }
    if a.iter_ids != b.iter_ids {
        out.push(d("iter", "", &a.iter_ids, &b.iter_ids));
    }
    let ta: BTreeMap<u32, &TermObs> = a.terms.iter().map(|t| (t.id, t)).collect();
    let tb: BTreeMap<u32, &TermObs> = b.terms.iter().map(|t| (t.id, t)).collect();
    for (id, x) in &ta {
        let Some(y) = tb.get(id) else {
            out.push(d("term.set", id, "present", "absent"));
            continue;
        };
        macro_rules! cmp {
            ($f:ident, $n:expr) => {
                if x.$f != y.$f {
                    out.push(d($n, id, &x.$f, &y.$f));
                }
            };
        }
        cmp!(name, "term.name");
        cmp!(obsolete, "term.obsolete");
        cmp!(replacement, "term.replacement");
        cmp!(replaced_by, "term.replaced_by");
        cmp!(parents, "term.parents");
        cmp!(children, "term.children");
        cmp!(all_parents, "term.all_parents");
        cmp!(genes, "term.genes");
        cmp!(omim, "term.omim");
        cmp!(orpha, "term.orpha");
        cmp!(is_modifier, "term.is_modifier");
        cmp!(categories, "term.categories");
        for (i, n) in ["term.ic_gene", "term.ic_omim", "term.ic_orpha"].iter().enumerate() {
            if !ic_eq(x.ic[i], y.ic[i], icm) {
                out.push(d(n, id, f32::from_bits(x.ic[i]), f32::from_bits(y.ic[i])));
            }
        }
        if out.len() > 40 {
            return out;
        }
    }
    for id in tb.keys() {
        if !ta.contains_key(id) {
            out.push(d("term.set", id, "absent", "present"));
        }
    }
    for (kind, ra, rb) in [("gene", &a.genes, &b.genes), ("omim", &a.omim, &b.omim), ("orpha", &a.orpha, &b.orpha)] {
        let ma: BTreeMap<u32, &RecObs> = ra.iter().map(|r| (r.id, r)).collect();
        let mb: BTreeMap<u32, &RecObs> = rb.iter().map(|r| (r.id, r)).collect();
        if ra.len() != ma.len() || rb.len() != mb.len() {
            out.push(d(&format!("{kind}.set"), "", "duplicate record ids", ""));
        }
        for (id, x) in &ma {
            match mb.get(id) {
                None => out.push(d(&format!("{kind}.set"), id, "present", "absent")),
                Some(y) => {
                    if x.name != y.name {
                        out.push(d(&format!("{kind}.name"), id, &x.name, &y.name));
                    }
                    if x.terms != y.terms {
                        out.push(d(&format!("{kind}.terms"), id, &x.terms, &y.terms));
                    }
                }
            }
        }
        for id in mb.keys() {
            if !ma.contains_key(id) {
                out.push(d(&format!("{kind}.set"), id, "absent", "present"));
            }
        }
    }
    if a.categories != b.categories {
        out.push(d("categories", "", &a.categories, &b.categories));
    }
    if a.modifier != b.modifier {
        out.push(d("modifier", "", &a.modifier, &b.modifier));
    }
    if !a.sims.is_empty() && !b.sims.is_empty() && a.sims != b.sims && a.terms.len() == b.terms.len() {
        let i = a.sims.iter().zip(b.sims.iter()).position(|(x, y)| x != y).unwrap_or(0);
        let algo = ["GraphIc", "InformationCoefficient", "Jc", "Lin", "Mutation", "Relevance", "Resnik"][i % 7];
        let kind = ["gene", "omim", "orpha"][(i / 7) % 3];
        out.push(d("similarity", format!("pair#{} {algo}({kind})", i / 21), f32::from_bits(a.sims[i]), f32::from_bits(*b.sims.get(i).unwrap_or(&0))));
    }
    out
}

pub fn digest(o: &Obs) -> u64 {
    // serde_json of a struct of Vecs/Strings is deterministic
    let s = serde_json::to_string(&(&o.version, o.len, &o.iter_ids, &o.terms, &o.genes, &o.omim, &o.orpha, &o.categories, &o.modifier, &o.anomalies, &o.sims)).unwrap();
    crate::prng::tag(&s)
}

/// Which claimed property "owns" a field of the observation
pub fn owners(field: &str) -> &'static [&'static str] {
    match field {
        "term.parents" | "term.children" | "term.all_parents" => &["C01"],
        "term.genes" | "term.omim" | "term.orpha" | "gene.terms" | "omim.terms" | "orpha.terms" | "gene.set" | "omim.set" | "orpha.set" | "gene.lookup" | "omim.lookup" | "orpha.lookup" => &["C02"],
        "term.ic_gene" | "term.ic_omim" | "term.ic_orpha" | "term.ic" => &["C03"],
        "term.is_modifier" | "term.categories" | "categories" | "modifier" => &["C19"],
        "len" | "iter" | "lookup" => &["C10"],
        _ => &[],
    }
}

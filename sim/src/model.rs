//! Reference model M(F): closure, inverse, inheritance, IC, defaults, distances.
//! Shares no code with the library.

use crate::facts::{FactSet, Kind, KINDS};
use crate::obs::{Obs, RecObs, TermObs};
use std::collections::{BTreeMap, BTreeSet, VecDeque};

pub type IdSet = BTreeSet<u32>;

/// ancestors (transitive closure of direct parents), per term
pub fn closure(f: &FactSet) -> BTreeMap<u32, IdSet> {
    let pm = f.parents_map();
    let mut out: BTreeMap<u32, IdSet> = BTreeMap::new();
    for &start in pm.keys() {
        let mut seen: IdSet = IdSet::new();
        let mut stack: Vec<u32> = pm[&start].iter().copied().collect();
        while let Some(x) = stack.pop() {
            if seen.insert(x) {
                if let Some(ps) = pm.get(&x) {
                    for &p in ps {
                        if !seen.contains(&p) {
                            stack.push(p);
                        }
                    }
                }
            }
        }
        out.insert(start, seen);
    }
    out
}

pub fn children_map(f: &FactSet) -> BTreeMap<u32, IdSet> {
    let mut m: BTreeMap<u32, IdSet> = BTreeMap::new();
    for t in &f.terms {
        m.entry(t.id).or_default();
    }
    for &(c, p) in &f.isa {
        m.entry(p).or_default().insert(c);
    }
    m
}

/// inherited record ids per term: union over descendants-or-self of direct sets
pub fn inherited(f: &FactSet, k: Kind, anc: &BTreeMap<u32, IdSet>) -> BTreeMap<u32, IdSet> {
    let mut m: BTreeMap<u32, IdSet> = BTreeMap::new();
    for t in &f.terms {
        m.entry(t.id).or_default();
    }
    for r in f.recs(k) {
        for t in &r.terms {
            m.entry(*t).or_default().insert(r.id);
            if let Some(a) = anc.get(t) {
                for x in a {
                    m.entry(*x).or_default().insert(r.id);
                }
            }
        }
    }
    m
}

pub fn ic(n: usize, total: usize) -> f32 {
    if n == 0 || total == 0 {
        return 0.0;
    }
    // counts are converted exactly (the library goes through u16, which is exact as well; above u16::MAX it
    // refuses to build, and if it ever did build the formula would still be this one)
    let n = n as f32;
    let t = total as f32;
    -((n / t).ln())
}

pub struct Defaults {
    pub modifier: Vec<u32>,
    pub categories: Vec<u32>,
}

pub fn defaults(f: &FactSet) -> Option<Defaults> {
    if !f.has_std_roots() {
        return None;
    }
    let ch = children_map(f);
    let modifier: Vec<u32> = ch[&1].iter().copied().filter(|&c| c != 118).collect();
    let mut cats: IdSet = modifier.iter().copied().collect();
    cats.extend(ch[&118].iter().copied());
    Some(Defaults { modifier, categories: cats.into_iter().collect() })
}

/// The observation the library must produce for fact set `f`.
/// `with_defaults`: categories/modifier as `build_with_defaults` installs them;
/// otherwise both empty (`build_minimal`, `sub_ontology`).
pub fn obs_of(f: &FactSet, with_defaults: bool) -> Obs {
    let anc = closure(f);
    let ch = children_map(f);
    let pm = f.parents_map();
    let inh: Vec<BTreeMap<u32, IdSet>> = KINDS.iter().map(|k| inherited(f, *k, &anc)).collect();
    let totals: Vec<usize> = KINDS.iter().map(|k| f.recs(*k).iter().map(|r| r.id).collect::<IdSet>().len()).collect();
    let (modifier, categories) = if with_defaults {
        match defaults(f) {
            Some(d) => (d.modifier, d.categories),
            None => (vec![], vec![]),
        }
    } else {
        (vec![], vec![])
    };
    let ids = f.term_ids();
    let mut terms: Vec<TermObs> = vec![];
    for t in &f.terms {
        let a = &anc[&t.id];
        let mut self_or_anc: IdSet = a.clone();
        self_or_anc.insert(t.id);
        let g = &inh[0][&t.id];
        let o = &inh[1][&t.id];
        let p = &inh[2][&t.id];
        terms.push(TermObs {
            id: t.id,
            name: t.name.clone(),
            obsolete: t.obsolete,
            replacement: t.replacement,
            replaced_by: t.replacement.filter(|r| ids.contains(r)),
            parents: pm[&t.id].iter().copied().collect(),
            children: ch[&t.id].iter().copied().collect(),
            all_parents: a.iter().copied().collect(),
            genes: g.iter().copied().collect(),
            omim: o.iter().copied().collect(),
            orpha: p.iter().copied().collect(),
            ic: [ic(g.len(), totals[0]).to_bits(), ic(o.len(), totals[1]).to_bits(), ic(p.len(), totals[2]).to_bits()],
            is_modifier: modifier.iter().any(|m| self_or_anc.contains(m)),
            categories: categories.iter().copied().filter(|c| self_or_anc.contains(c)).collect(),
        });
    }
    terms.sort_by_key(|t| t.id);
    let mk = |k: Kind| -> Vec<RecObs> {
        let mut v: Vec<RecObs> = f.recs(k).iter().map(|r| RecObs { id: r.id, name: r.name.clone(), terms: r.terms.clone() }).collect();
        v.sort_by_key(|r| r.id);
        v
    };
    let mut iter_ids: Vec<u32> = f.terms.iter().map(|t| t.id).collect();
    iter_ids.sort_unstable();
    Obs {
        version: format!("{:0>4}-{:0>2}-{:0>2}", f.version.0, f.version.1, f.version.2),
        len: f.terms.len(),
        iter_ids,
        terms,
        genes: mk(Kind::Gene),
        omim: mk(Kind::Omim),
        orpha: mk(Kind::Orpha),
        categories,
        modifier,
        sims: vec![],
        anomalies: vec![],
        probes: Default::default(),
    }
}

/// upward BFS distances from `from` to each ancestor-or-self
pub fn up_dist(f: &FactSet, from: u32) -> BTreeMap<u32, u32> {
    let pm = f.parents_map();
    let mut d: BTreeMap<u32, u32> = BTreeMap::new();
    let mut q = VecDeque::new();
    d.insert(from, 0);
    q.push_back(from);
    while let Some(x) = q.pop_front() {
        let dx = d[&x];
        if let Some(ps) = pm.get(&x) {
            for &p in ps {
                if !d.contains_key(&p) {
                    d.insert(p, dx + 1);
                    q.push_back(p);
                }
            }
        }
    }
    d
}

/// Derive the direct fact set back out of an observation (for intrinsic checks
/// on ontologies whose fact set is defined by the library itself, e.g. sub-ontologies)
pub fn facts_of_obs(o: &Obs) -> FactSet {
    let mut f = FactSet::default();
    for t in &o.terms {
        f.terms.push(crate::facts::TermFact { id: t.id, name: t.name.clone(), obsolete: t.obsolete, replacement: t.replacement });
        for p in &t.parents {
            f.isa.push((t.id, *p));
        }
    }
    let conv = |v: &Vec<RecObs>| -> Vec<crate::facts::Rec> {
        v.iter().map(|r| crate::facts::Rec { id: r.id, name: r.name.clone(), terms: r.terms.clone() }).collect()
    };
    f.genes = conv(&o.genes);
    f.omim = conv(&o.omim);
    f.orpha = conv(&o.orpha);
    f.normalise();
    f
}

//! SimDisk (placeholder, filled in with C07/C08)

//! SimDisk: a page-cache model with small blocks, writer programs W1-W3 (models of the
//! documented usage `File::create` + `write_all`, labelled stubs in evidence), crash points
//! between syscalls, and classification of the durable image. The library has no write
//! path; the reader side is the real `Ontology::from_binary` on the materialised image.

use crate::scenario::DiskSpec;
use serde::{Deserialize, Serialize};

#[derive(Clone, Debug, PartialEq, Eq, Serialize, Deserialize)]
pub enum Sys {
    CreateTrunc,
    OpenNoTrunc,
    CreateTmp,
    Write { off: usize, len: usize },
    Fsync,
    Close,
    Rename,
}

#[derive(Clone, Copy, Debug, PartialEq, Eq, Serialize, Deserialize, PartialOrd, Ord, Hash)]
pub enum ImageClass {
    Absent,
    Full,
    Old,
    Prefix,
    Extended,
    Torn,
}

pub struct Image {
    /// None = the path does not exist after the crash
    pub bytes: Option<Vec<u8>>,
    pub class: ImageClass,
    pub syscalls_done: usize,
    pub syscalls_total: usize,
    pub trace: Vec<String>,
}

pub fn program(spec: &DiskSpec, len: usize) -> Vec<Sys> {
    let mut p = vec![];
    let chunk = spec.chunk.max(1);
    match spec.writer {
        1 => {
            p.push(Sys::CreateTrunc);
            let mut off = 0;
            while off < len {
                let l = chunk.min(len - off);
                p.push(Sys::Write { off, len: l });
                off += l;
            }
            if spec.fsync {
                p.push(Sys::Fsync);
            }
            p.push(Sys::Close);
        }
        2 => {
            p.push(Sys::CreateTmp);
            let mut off = 0;
            while off < len {
                let l = chunk.min(len - off);
                p.push(Sys::Write { off, len: l });
                off += l;
            }
            p.push(Sys::Fsync);
            p.push(Sys::Close);
            p.push(Sys::Rename);
        }
        _ => {
            p.push(Sys::OpenNoTrunc);
            let mut off = 0;
            while off < len {
                let l = chunk.min(len - off);
                p.push(Sys::Write { off, len: l });
                off += l;
            }
            if spec.fsync {
                p.push(Sys::Fsync);
            }
            p.push(Sys::Close);
        }
    }
    p
}

struct Bits(u64, u32);
impl Bits {
    fn next(&mut self) -> bool {
        // a small LCG over the durable-choice word so that any number of blocks can be decided
        self.0 = self.0.wrapping_mul(6364136223846793005).wrapping_add(1442695040888963407);
        self.1 += 1;
        (self.0 >> 33) & 1 == 1
    }
    fn below(&mut self, n: usize) -> usize {
        self.0 = self.0.wrapping_mul(6364136223846793005).wrapping_add(1442695040888963407);
        ((self.0 >> 33) as usize) % n.max(1)
    }
}

/// Run the writer program for `intended` over a disk that holds `old` (the previous durable
/// file at the target path, if any), crash as specified, and compute the durable image.
pub fn run(spec: &DiskSpec, intended: &[u8], old: Option<&[u8]>) -> Image {
    let prog = program(spec, intended.len());
    let total = prog.len();
    let stop = spec.crash_at.map_or(total, |k| k.min(total));
    let block = spec.block.max(1);
    let mut bits = Bits(spec.durable_bits ^ 0x9E37_79B9_7F4A_7C15, 0);
    let mut trace = vec![];
    // state of the file being written (target for W1/W3, temp for W2)
    let mut cache: Vec<u8> = match spec.writer {
        3 => old.map(|o| o.to_vec()).unwrap_or_default(),
        _ => vec![],
    };
    let mut durable: Option<Vec<u8>> = match spec.writer {
        2 => None,
        _ => old.map(|o| o.to_vec()),
    };
    let mut dirty: std::collections::BTreeSet<usize> = Default::default();
    let mut meta_dirty = false; // size / truncation not yet durable
    let mut exists_in_cache = spec.writer == 3 && old.is_some();
    let mut renamed = false;
    let mut fsynced_full = false;
    for (i, sc) in prog.iter().enumerate() {
        if i >= stop {
            break;
        }
        trace.push(format!("{sc:?}"));
        match sc {
            Sys::CreateTrunc => {
                cache.clear();
                meta_dirty = true;
                exists_in_cache = true;
            }
            Sys::CreateTmp => {
                cache.clear();
                exists_in_cache = true;
            }
            Sys::OpenNoTrunc => {
                if !exists_in_cache {
                    // nothing to overwrite: behaves like create
                    exists_in_cache = true;
                    meta_dirty = true;
                }
            }
            Sys::Write { off, len } => {
                if cache.len() < off + len {
                    cache.resize(off + len, 0);
                    meta_dirty = true;
                }
                cache[*off..off + len].copy_from_slice(&intended[*off..off + len]);
                for b in (off / block)..=((off + len - 1) / block) {
                    dirty.insert(b);
                }
            }
            Sys::Fsync => {
                durable = Some(cache.clone());
                dirty.clear();
                meta_dirty = false;
                fsynced_full = cache == intended;
            }
            Sys::Close => {}
            Sys::Rename => {
                renamed = true;
            }
        }
    }
    let crashed = stop < total;
    let bytes: Option<Vec<u8>> = if !crashed {
        // clean shutdown: everything reaches the disk
        match spec.writer {
            2 => Some(cache.clone()),
            _ => Some(cache.clone()),
        }
    } else if spec.writer == 2 {
        // the target is either the old file or (rename durable) the fully synced temp file
        if renamed && bits.next() {
            trace.push("crash: rename was durable".into());
            durable.clone()
        } else {
            trace.push("crash: target still the previous file".into());
            old.map(|o| o.to_vec())
        }
    } else if !exists_in_cache {
        old.map(|o| o.to_vec())
    } else {
        // block-wise choice between what was durable and what sat in the page cache
        let base = durable.clone().unwrap_or_default();
        let mut img = base.clone();
        // size metadata: old / new / an intermediate write boundary
        let new_len = cache.len();
        let len_choice = if !meta_dirty {
            base.len()
        } else {
            match bits.below(3) {
                0 => base.len(),
                1 => new_len,
                _ => {
                    let b = bits.below(new_len / block + 1) * block;
                    b.min(new_len)
                }
            }
        };
        if img.len() < len_choice {
            img.resize(len_choice, 0);
        }
        let mut persisted = 0;
        for b in &dirty {
            if bits.next() {
                let s = b * block;
                let e = ((b + 1) * block).min(cache.len());
                if s < e {
                    if img.len() < e {
                        // data beyond the durable size does not survive
                        let e2 = e.min(img.len());
                        if s < e2 {
                            img[s..e2].copy_from_slice(&cache[s..e2]);
                        }
                    } else {
                        img[s..e].copy_from_slice(&cache[s..e]);
                    }
                    persisted += 1;
                }
            }
        }
        img.truncate(len_choice);
        trace.push(format!("crash: {persisted} of {} dirty blocks durable, durable size {len_choice} (cache size {new_len}, previous {})", dirty.len(), base.len()));
        if durable.is_none() && !meta_dirty && img.is_empty() && old.is_none() {
            None
        } else if durable.is_none() && old.is_none() && meta_dirty && len_choice == 0 && bits.next() {
            // the creation of the directory entry itself was not durable
            None
        } else {
            Some(img)
        }
    };
    let _ = fsynced_full;
    let class = classify(bytes.as_deref(), intended, old);
    Image { bytes, class, syscalls_done: stop, syscalls_total: total, trace }
}

pub fn classify(img: Option<&[u8]>, intended: &[u8], old: Option<&[u8]>) -> ImageClass {
    let Some(b) = img else { return ImageClass::Absent };
    if b == intended {
        return ImageClass::Full;
    }
    if let Some(o) = old {
        if b == o {
            return ImageClass::Old;
        }
    }
    if b.len() < intended.len() && intended.starts_with(b) {
        return ImageClass::Prefix;
    }
    if b.len() > intended.len() && b.starts_with(intended) {
        return ImageClass::Extended;
    }
    ImageClass::Torn
}

//! Shrinking passes over the explicit scenario. A step is kept only if the same
//! (property, class) still fails. Bounded number of re-executions.

use crate::channel::{Dup, Order};
use crate::facts::KINDS;
use crate::props::execute;
use crate::replica::{Ctx, PathKind, ReplicaSpec};
use crate::scenario::Scenario;

pub struct Minimiser<'a> {
    pub ctx: &'a mut Ctx,
    pub class: String,
    pub budget: usize,
    pub execs: usize,
    /// wall-clock budget: large scenarios (tens of thousands of records) cost seconds per execution
    pub deadline: std::time::Instant,
}

impl Minimiser<'_> {
    fn fails(&mut self, s: &Scenario) -> bool {
        if self.execs >= self.budget || std::time::Instant::now() > self.deadline {
            return false;
        }
        self.execs += 1;
        let out = match crate::obs::guarded(|| execute(self.ctx, s)) {
            Ok(o) => o,
            Err(_) => return false,
        };
        out.violations.iter().any(|v| v.class == self.class)
    }

    fn exhausted(&self) -> bool {
        self.execs >= self.budget || std::time::Instant::now() > self.deadline
    }

    fn try_apply(&mut self, s: &mut Scenario, cand: Scenario) -> bool {
        if self.exhausted() {
            return false;
        }
        if self.fails(&cand) {
            *s = cand;
            true
        } else {
            false
        }
    }

    /// delta-debugging style: remove chunks of halving size before single elements
    fn shrink_chunks(&mut self, s: &mut Scenario, len_of: &dyn Fn(&Scenario) -> usize, remove: &dyn Fn(&mut Scenario, usize, usize)) -> bool {
        let mut any = false;
        let mut chunk = len_of(s) / 2;
        while chunk >= 2 {
            let mut start = 0;
            while start < len_of(s) {
                let end = (start + chunk).min(len_of(s));
                let mut c = s.clone();
                remove(&mut c, start, end);
                if self.try_apply(s, c) {
                    any = true;
                } else {
                    start = end;
                }
                if self.execs >= self.budget || std::time::Instant::now() > self.deadline {
                    return any;
                }
            }
            chunk /= 2;
        }
        any
    }

    pub fn run(&mut self, mut s: Scenario) -> Scenario {
        // big scenarios first lose whole chunks of records, terms (with dependants) and links
        if s.facts.size() > 200 {
            for k in KINDS {
                if self.exhausted() {
                    break;
                }
                self.shrink_chunks(&mut s, &|x| x.facts.recs(k).len(), &|x, a, b| {
                    x.facts.recs_mut(k).drain(a..b);
                });
            }
            self.shrink_chunks(&mut s, &|x| x.facts.terms.len(), &|x, a, b| {
                let keep_std = x.drop_terms.is_empty() && x.prop != "C15";
                let root = x.sub.as_ref().map(|q| q.root);
                let ids: Vec<u32> = x.facts.terms[a..b].iter().map(|t| t.id).filter(|i| !(keep_std && (*i == 1 || *i == 118)) && Some(*i) != root).collect();
                let set: std::collections::BTreeSet<u32> = ids.into_iter().collect();
                x.facts.remove_terms(&set);
                if let Some(sub) = &mut x.sub {
                    let keep: Vec<u32> = sub.leaves.iter().copied().filter(|l| !set.contains(l)).collect();
                    if !keep.is_empty() {
                        sub.leaves = keep;
                    }
                }
            });
            self.shrink_chunks(&mut s, &|x| x.facts.isa.len(), &|x, a, b| {
                x.facts.isa.drain(a..b);
            });
            self.shrink_chunks(&mut s, &|x| x.ops.len(), &|x, a, b| {
                x.ops.drain(a..b);
            });
        }
        let mut progress = true;
        let mut rounds = 0;
        while progress && rounds < 6 && self.execs < self.budget {
            if self.exhausted() {
                break;
            }
            progress = false;
            rounds += 1;
            // replicas
            let mut i = 0;
            while i < s.replicas.len() {
                if self.exhausted() {
                    break;
                }
                if s.replicas.len() > 1 {
                    let mut c = s.clone();
                    c.replicas.remove(i);
                    let mut ok = true;
                    if let Some(sub) = &mut c.sub {
                        if sub.source == i {
                            ok = false;
                        } else if sub.source > i {
                            sub.source -= 1;
                        }
                    }
                    if let Some(d) = &mut c.disk {
                        if let Some(o) = d.old_from {
                            if o == i {
                                d.old_from = None;
                            } else if o > i {
                                d.old_from = Some(o - 1);
                            }
                        }
                    }
                    if ok && self.try_apply(&mut s, c) {
                        progress = true;
                        continue;
                    }
                }
                i += 1;
            }
            if s.sub.is_some() {
                let mut c = s.clone();
                c.sub = None;
                progress |= self.try_apply(&mut s, c);
            }
            if let Some(sub) = s.sub.clone() {
                let mut j = 0;
                while j < s.sub.as_ref().map_or(0, |x| x.leaves.len()) {
                    if self.exhausted() {
                        break;
                    }
                    if s.sub.as_ref().unwrap().leaves.len() > 1 {
                        let mut c = s.clone();
                        c.sub.as_mut().unwrap().leaves.remove(j);
                        if self.try_apply(&mut s, c) {
                            progress = true;
                            continue;
                        }
                    }
                    j += 1;
                }
                let _ = sub;
            }
            // ops / edits
            let mut j = 0;
            while j < s.ops.len() {
                if self.exhausted() {
                    break;
                }
                let mut c = s.clone();
                c.ops.remove(j);
                if self.try_apply(&mut s, c) {
                    progress = true;
                } else {
                    j += 1;
                }
            }
            let mut j = 0;
            while j < s.edits.len() {
                if self.exhausted() {
                    break;
                }
                let mut c = s.clone();
                c.edits.remove(j);
                if self.try_apply(&mut s, c) {
                    progress = true;
                } else {
                    j += 1;
                }
            }
            // records
            for k in KINDS {
                if self.exhausted() {
                    break;
                }
                let mut j = 0;
                while j < s.facts.recs(k).len() {
                    if self.exhausted() {
                        break;
                    }
                    let mut c = s.clone();
                    c.facts.recs_mut(k).remove(j);
                    if self.try_apply(&mut s, c) {
                        progress = true;
                        continue;
                    }
                    let mut t = 0;
                    while t < s.facts.recs(k)[j].terms.len() {
                        if self.exhausted() {
                            break;
                        }
                        let mut c = s.clone();
                        c.facts.recs_mut(k)[j].terms.remove(t);
                        if self.try_apply(&mut s, c) {
                            progress = true;
                        } else {
                            t += 1;
                        }
                    }
                    j += 1;
                }
            }
            // terms (with dependants); never the two std roots unless the scenario already lacks them
            let ids: Vec<u32> = s.facts.terms.iter().map(|t| t.id).collect();
            for id in ids {
                if self.exhausted() {
                    break;
                }
                if (id == 1 || id == 118) && s.drop_terms.is_empty() && s.prop != "C15" {
                    continue;
                }
                if let Some(sub) = &s.sub {
                    if sub.root == id {
                        continue;
                    }
                }
                let mut c = s.clone();
                c.facts.remove_term(id);
                if let Some(sub) = &mut c.sub {
                    sub.leaves.retain(|l| *l != id);
                    if sub.leaves.is_empty() {
                        continue;
                    }
                }
                progress |= self.try_apply(&mut s, c);
            }
            // links
            let mut j = 0;
            while j < s.facts.isa.len() {
                if self.exhausted() {
                    break;
                }
                let mut c = s.clone();
                c.facts.isa.remove(j);
                if self.try_apply(&mut s, c) {
                    progress = true;
                } else {
                    j += 1;
                }
            }
            // flags
            for j in 0..s.facts.terms.len() {
                if self.exhausted() {
                    break;
                }
                if s.facts.terms[j].obsolete || s.facts.terms[j].replacement.is_some() {
                    let mut c = s.clone();
                    c.facts.terms[j].obsolete = false;
                    c.facts.terms[j].replacement = None;
                    progress |= self.try_apply(&mut s, c);
                }
            }
            // canonical schedules
            for j in 0..s.replicas.len() {
                if self.exhausted() {
                    break;
                }
                let canon = canonicalised(&s.replicas[j]);
                if canon != s.replicas[j] {
                    let mut c = s.clone();
                    c.replicas[j] = canon;
                    if !self.try_apply(&mut s, c) {
                        // piecewise
                        let mut c = s.clone();
                        c.replicas[j].dup = Dup::none();
                        c.replicas[j].text.dup = Dup::none();
                        c.replicas[j].text.ign_permille = 0;
                        if c.replicas[j] != s.replicas[j] {
                            progress |= self.try_apply(&mut s, c);
                        }
                        let mut c = s.clone();
                        c.replicas[j].hash = (1, 0);
                        if c.replicas[j] != s.replicas[j] {
                            progress |= self.try_apply(&mut s, c);
                        }
                        let mut c = s.clone();
                        c.replicas[j].via_file = false;
                        if c.replicas[j] != s.replicas[j] {
                            progress |= self.try_apply(&mut s, c);
                        }
                    } else {
                        progress = true;
                    }
                }
            }
            if let Some(sub) = &s.sub {
                if sub.hash != (1, 0) {
                    let mut c = s.clone();
                    c.sub.as_mut().unwrap().hash = (1, 0);
                    progress |= self.try_apply(&mut s, c);
                }
            }
            // short names
            let mut c = s.clone();
            for t in &mut c.facts.terms {
                if self.exhausted() {
                    break;
                }
                t.name = format!("t{}", t.id);
            }
            for k in KINDS {
                if self.exhausted() {
                    break;
                }
                for r in c.facts.recs_mut(k) {
                    r.name = format!("{}{}", ["g", "o", "p"][k as usize], r.id);
                }
            }
            if c.facts != s.facts {
                if !self.try_apply(&mut s, c) {
                    // one at a time
                    for j in 0..s.facts.terms.len() {
                        if self.exhausted() {
                            break;
                        }
                        let short = format!("t{}", s.facts.terms[j].id);
                        if s.facts.terms[j].name != short {
                            let mut c = s.clone();
                            c.facts.terms[j].name = short;
                            progress |= self.try_apply(&mut s, c);
                        }
                    }
                    for k in KINDS {
                        if self.exhausted() {
                            break;
                        }
                        for j in 0..s.facts.recs(k).len() {
                            let short = format!("{}{}", ["g", "o", "p"][k as usize], s.facts.recs(k)[j].id);
                            if s.facts.recs(k)[j].name != short {
                                let mut c = s.clone();
                                c.facts.recs_mut(k)[j].name = short;
                                progress |= self.try_apply(&mut s, c);
                            }
                        }
                    }
                } else {
                    progress = true;
                }
            }
            if s.facts.version != (0, 0, 0) {
                let mut c = s.clone();
                c.facts.version = (0, 0, 0);
                progress |= self.try_apply(&mut s, c);
            }
            // renumber term ids densely (monotone, 1 and 118 and 0 fixed) so the scenario reads easily
            if let Some(c) = renumbered(&s) {
                progress |= self.try_apply(&mut s, c);
            }
            // disk: lower the crash index
            if let Some(d) = s.disk.clone() {
                if let Some(k) = d.crash_at {
                    if k > 0 {
                        let mut c = s.clone();
                        c.disk.as_mut().unwrap().crash_at = Some(k - 1);
                        progress |= self.try_apply(&mut s, c);
                    }
                }
            }
        }
        s
    }
}

pub fn canonicalised(r: &ReplicaSpec) -> ReplicaSpec {
    let mut c = ReplicaSpec::canonical(r.path);
    c.defaults = r.defaults;
    if r.path == PathKind::BinLib {
        c.inner = r.inner.as_ref().map(|i| Box::new(canonicalised(i)));
    }
    let _ = Order::canonical();
    c
}

/// Monotone renumbering of term ids to small numbers; ids 0, 1, 118 and ids >= 10^7 stay as they are.
fn renumbered(s: &Scenario) -> Option<Scenario> {
    use crate::scenario::{Edit, Op};
    use std::collections::{BTreeMap, BTreeSet};
    let mut ids: BTreeSet<u32> = s.facts.terms.iter().map(|t| t.id).collect();
    for (c, p) in &s.facts.isa {
        ids.insert(*c);
        ids.insert(*p);
    }
    for k in KINDS {
        for r in s.facts.recs(k) {
            ids.extend(r.terms.iter().copied());
        }
    }
    if let Some(sub) = &s.sub {
        ids.insert(sub.root);
        ids.extend(sub.leaves.iter().copied());
    }
    for op in &s.ops {
        match op {
            Op::NewTerm { id, .. } => {
                ids.insert(*id);
            }
            Op::AddParent { parent, child } => {
                ids.insert(*parent);
                ids.insert(*child);
            }
            Op::Annotate { term, .. } => {
                ids.insert(*term);
            }
            _ => {}
        }
    }
    for e in &s.edits {
        match e {
            Edit::RenameTerm { id, .. } | Edit::FlipObsolete { id } | Edit::RemoveTerm { id } => {
                ids.insert(*id);
            }
            Edit::SetReplacement { id, to } => {
                ids.insert(*id);
                if let Some(t) = to {
                    ids.insert(*t);
                }
            }
            Edit::AddParent { child, parent } | Edit::RemoveParent { child, parent } => {
                ids.insert(*child);
                ids.insert(*parent);
            }
            Edit::AddTerm { id, parent, .. } => {
                ids.insert(*id);
                if let Some(p) = parent {
                    ids.insert(*p);
                }
            }
            Edit::AddAnn { term, .. } | Edit::RemoveAnn { term, .. } => {
                ids.insert(*term);
            }
            Edit::AddRec { terms, .. } => ids.extend(terms.iter().copied()),
            _ => {}
        }
    }
    ids.extend(s.drop_terms.iter().copied());
    for t in &s.facts.terms {
        if let Some(r) = t.replacement {
            ids.insert(r);
        }
    }
    // monotone map that keeps the fixed points in place
    let fixed = |x: u32| x == 0 || x == 1 || x == 118 || x >= 10_000_000;
    let mut map: BTreeMap<u32, u32> = BTreeMap::new();
    let mut next = 2u32;
    for id in &ids {
        if fixed(*id) {
            map.insert(*id, *id);
            if *id == 118 {
                next = next.max(119);
            }
            continue;
        }
        // stay on the correct side of 118
        if *id < 118 && next >= 118 {
            return None;
        }
        if *id > 118 && next < 119 {
            next = 119;
        }
        map.insert(*id, next);
        next += 1;
    }
    if map.iter().all(|(a, b)| a == b) {
        return None;
    }
    let m = |x: u32| *map.get(&x).unwrap_or(&x);
    let mut c = s.clone();
    for t in &mut c.facts.terms {
        t.id = m(t.id);
        t.replacement = t.replacement.map(m);
    }
    for l in &mut c.facts.isa {
        *l = (m(l.0), m(l.1));
    }
    for k in KINDS {
        for r in c.facts.recs_mut(k) {
            for t in &mut r.terms {
                *t = m(*t);
            }
        }
    }
    c.facts.normalise();
    if let Some(sub) = &mut c.sub {
        sub.root = m(sub.root);
        for l in &mut sub.leaves {
            *l = m(*l);
        }
    }
    for op in &mut c.ops {
        match op {
            Op::NewTerm { id, .. } => *id = m(*id),
            Op::AddParent { parent, child } => {
                *parent = m(*parent);
                *child = m(*child);
            }
            Op::Annotate { term, .. } => *term = m(*term),
            _ => {}
        }
    }
    for e in &mut c.edits {
        match e {
            Edit::RenameTerm { id, .. } | Edit::FlipObsolete { id } | Edit::RemoveTerm { id } => *id = m(*id),
            Edit::SetReplacement { id, to } => {
                *id = m(*id);
                *to = to.map(m);
            }
            Edit::AddParent { child, parent } | Edit::RemoveParent { child, parent } => {
                *child = m(*child);
                *parent = m(*parent);
            }
            Edit::AddTerm { id, parent, .. } => {
                *id = m(*id);
                *parent = parent.map(m);
            }
            Edit::AddAnn { term, .. } | Edit::RemoveAnn { term, .. } => *term = m(*term),
            Edit::AddRec { terms, .. } => {
                for t in terms {
                    *t = m(*t);
                }
            }
            _ => {}
        }
    }
    for d in &mut c.drop_terms {
        *d = m(*d);
    }
    Some(c)
}

//! Ground truth: the fact set, its generators and the per-transport projections.

use crate::prng::Prng;
use serde::{Deserialize, Serialize};
use std::collections::{BTreeMap, BTreeSet};

#[derive(Clone, Debug, Serialize, Deserialize, PartialEq, Eq)]
pub struct TermFact {
    pub id: u32,
    pub name: String,
    #[serde(default)]
    pub obsolete: bool,
    #[serde(default)]
    pub replacement: Option<u32>,
}

#[derive(Clone, Debug, Serialize, Deserialize, PartialEq, Eq)]
pub struct Rec {
    pub id: u32,
    pub name: String,
    /// directly annotated terms, ascending, distinct
    pub terms: Vec<u32>,
}

#[derive(Clone, Debug, Default, Serialize, Deserialize, PartialEq, Eq)]
pub struct FactSet {
    pub version: (u16, u8, u8),
    pub terms: Vec<TermFact>,
    /// (child, parent)
    pub isa: Vec<(u32, u32)>,
    pub genes: Vec<Rec>,
    pub omim: Vec<Rec>,
    pub orpha: Vec<Rec>,
}

#[derive(Clone, Copy, Debug, PartialEq, Eq, Serialize, Deserialize, PartialOrd, Ord, Hash)]
pub enum Kind {
    Gene,
    Omim,
    Orpha,
}

pub const KINDS: [Kind; 3] = [Kind::Gene, Kind::Omim, Kind::Orpha];

impl FactSet {
    pub fn recs(&self, k: Kind) -> &Vec<Rec> {
        match k {
            Kind::Gene => &self.genes,
            Kind::Omim => &self.omim,
            Kind::Orpha => &self.orpha,
        }
    }
    pub fn recs_mut(&mut self, k: Kind) -> &mut Vec<Rec> {
        match k {
            Kind::Gene => &mut self.genes,
            Kind::Omim => &mut self.omim,
            Kind::Orpha => &mut self.orpha,
        }
    }
    pub fn term_ids(&self) -> BTreeSet<u32> {
        self.terms.iter().map(|t| t.id).collect()
    }
    pub fn has_term(&self, id: u32) -> bool {
        self.terms.iter().any(|t| t.id == id)
    }
    pub fn has_std_roots(&self) -> bool {
        self.has_term(1) && self.has_term(118)
    }
    pub fn parents_map(&self) -> BTreeMap<u32, BTreeSet<u32>> {
        let mut m: BTreeMap<u32, BTreeSet<u32>> = BTreeMap::new();
        for t in &self.terms {
            m.entry(t.id).or_default();
        }
        for &(c, p) in &self.isa {
            m.entry(c).or_default().insert(p);
        }
        m
    }
    /// depth = longest chain to a root (0 for roots)
    pub fn depths(&self) -> BTreeMap<u32, u32> {
        let pm = self.parents_map();
        let mut d: BTreeMap<u32, u32> = BTreeMap::new();
        // iterative: repeat relaxation in topological fashion
        fn go(id: u32, pm: &BTreeMap<u32, BTreeSet<u32>>, d: &mut BTreeMap<u32, u32>) -> u32 {
            if let Some(&x) = d.get(&id) {
                return x;
            }
            // explicit stack to survive deep chains
            let mut stack = vec![(id, false)];
            while let Some((n, expanded)) = stack.pop() {
                if d.contains_key(&n) {
                    continue;
                }
                let ps = pm.get(&n).cloned().unwrap_or_default();
                if expanded {
                    let v = ps.iter().map(|p| d.get(p).copied().unwrap_or(0) + 1).max().unwrap_or(0);
                    d.insert(n, v);
                } else {
                    stack.push((n, true));
                    for p in ps {
                        if !d.contains_key(&p) {
                            stack.push((p, false));
                        }
                    }
                }
            }
            d[&id]
        }
        for t in &self.terms {
            go(t.id, &pm, &mut d);
        }
        d
    }
    /// number of facts (for size reports / minimisation)
    pub fn size(&self) -> usize {
        self.terms.len()
            + self.isa.len()
            + KINDS.iter().map(|k| self.recs(*k).iter().map(|r| 1 + r.terms.len()).sum::<usize>()).sum::<usize>()
    }
    /// Remove a term together with every fact that mentions it
    pub fn remove_term(&mut self, id: u32) {
        self.terms.retain(|t| t.id != id);
        self.isa.retain(|&(c, p)| c != id && p != id);
        for t in &mut self.terms {
            if t.replacement == Some(id) {
                t.replacement = None;
            }
        }
        for k in KINDS {
            for r in self.recs_mut(k) {
                r.terms.retain(|&t| t != id);
            }
        }
    }
    /// Remove many terms at once (with every fact that mentions them)
    pub fn remove_terms(&mut self, ids: &BTreeSet<u32>) {
        self.terms.retain(|t| !ids.contains(&t.id));
        self.isa.retain(|(c, p)| !ids.contains(c) && !ids.contains(p));
        for t in &mut self.terms {
            if t.replacement.map_or(false, |r| ids.contains(&r)) {
                t.replacement = None;
            }
        }
        for k in KINDS {
            for r in self.recs_mut(k) {
                r.terms.retain(|t| !ids.contains(t));
            }
        }
    }

    pub fn normalise(&mut self) {
        for k in KINDS {
            for r in self.recs_mut(k) {
                r.terms.sort_unstable();
                r.terms.dedup();
            }
        }
        let mut seen = BTreeSet::new();
        self.isa.retain(|e| seen.insert(*e));
    }
    /// Names with leading / trailing blanks (only for scenarios without a text transport: the text
    /// formats cannot carry them unambiguously)
    pub fn pad_some_names(&mut self, r: &mut crate::prng::Prng) {
        let pads = [" ", "  ", "\t", " \u{a0}"];
        for t in &mut self.terms {
            if r.chance(1, 6) {
                t.name = match r.below(3) {
                    0 => format!("{}{}", r.pick(&pads), t.name),
                    1 => format!("{}{}", t.name, r.pick(&pads)),
                    _ => format!("{}{}{}", r.pick(&pads), t.name, r.pick(&pads)),
                };
            }
        }
        for k in KINDS {
            for rec in self.recs_mut(k) {
                if r.chance(1, 8) {
                    rec.name = format!(" {} ", rec.name);
                }
            }
        }
    }

    pub fn max_name_len(&self) -> usize {
        self.terms.iter().map(|t| t.name.len()).chain(self.genes.iter().map(|g| g.name.len())).max().unwrap_or(0)
    }
}

// ---------------------------------------------------------------- projections

#[derive(Clone, Copy, Debug, PartialEq, Eq, Serialize, Deserialize, Hash, PartialOrd, Ord)]
pub enum Proj {
    /// no public Builder call sets obsolete / replacement
    Builder,
    /// v1: no version, obsolete, replacement, ORPHA
    V1,
    /// v2: no ORPHA
    V2,
    /// text: records without terms cannot be expressed
    Text,
    /// transitive text: gene rows carry the ancestors as well
    TextTransitive,
    /// names cut to the documented 255-byte limit (terms and gene symbols)
    Trunc255,
    /// transitive text whose gene file lacks some of the ancestor rows (generated against another release, filtered):
    /// a gene record lists its direct terms and the ancestors whose row survived; links still reach every ancestor
    TextTransitivePartial(u64),
}

/// does the (gene, ancestor term) row of a partial transitive gene file exist?
pub fn trans_row_kept(seed: u64, gene: u32, term: u32) -> bool {
    crate::prng::mix2(crate::prng::mix2(seed, u64::from(gene)), u64::from(term)) % 2 == 0
}

pub fn cut255(s: &str) -> String {
    if s.len() <= 255 {
        return s.to_string();
    }
    let mut e = 255;
    while !s.is_char_boundary(e) {
        e -= 1;
    }
    s[..e].to_string()
}

pub fn project(f: &FactSet, p: Proj) -> FactSet {
    let mut g = f.clone();
    match p {
        Proj::Builder => {
            for t in &mut g.terms {
                t.obsolete = false;
                t.replacement = None;
            }
        }
        Proj::V1 => {
            g.version = (0, 0, 0);
            for t in &mut g.terms {
                t.obsolete = false;
                t.replacement = None;
            }
            g.orpha.clear();
        }
        Proj::V2 => {
            g.orpha.clear();
        }
        Proj::Text => {
            for k in KINDS {
                g.recs_mut(k).retain(|r| !r.terms.is_empty());
            }
        }
        Proj::TextTransitive => {
            for k in KINDS {
                g.recs_mut(k).retain(|r| !r.terms.is_empty());
            }
            let anc = crate::model::closure(&g);
            for r in &mut g.genes {
                let mut s: BTreeSet<u32> = r.terms.iter().copied().collect();
                for t in &r.terms {
                    if let Some(a) = anc.get(t) {
                        s.extend(a.iter().copied());
                    }
                }
                r.terms = s.into_iter().collect();
            }
        }
        Proj::TextTransitivePartial(seed) => {
            for k in KINDS {
                g.recs_mut(k).retain(|r| !r.terms.is_empty());
            }
            let anc = crate::model::closure(&g);
            for r in &mut g.genes {
                let mut s: BTreeSet<u32> = r.terms.iter().copied().collect();
                for t in &r.terms {
                    if let Some(a) = anc.get(t) {
                        s.extend(a.iter().copied().filter(|x| trans_row_kept(seed, r.id, *x)));
                    }
                }
                r.terms = s.into_iter().collect();
            }
        }
        Proj::Trunc255 => {
            for t in &mut g.terms {
                t.name = cut255(&t.name);
            }
            for r in &mut g.genes {
                r.name = cut255(&r.name);
            }
        }
    }
    g
}

pub fn project_all(f: &FactSet, ps: &[Proj]) -> FactSet {
    let mut g = f.clone();
    // TextTransitive must see the final link set; order of the others is irrelevant
    let mut ps: Vec<Proj> = ps.to_vec();
    ps.sort();
    ps.dedup();
    for p in ps {
        g = project(&g, p);
    }
    g
}

// ------------------------------------------------------------------ generator

#[derive(Clone, Debug, Serialize, Deserialize)]
pub struct GenCfg {
    /// HP:1 and HP:118 present, with modifier roots and categories below them
    pub std_roots: bool,
    pub n_terms: usize,
    /// 0 chain, 1 tree, 2 ladder, 3 layered, 4 random dag
    pub shape: u8,
    pub extra_roots: bool,
    pub redundant_edges: bool,
    pub obsolete: bool,
    /// 0 ascending with topological index, 1 descending, 2 random
    pub id_corr: u8,
    /// 0 dense small, 1 sparse over the whole space, 2 sparse with borders forced
    pub id_space: u8,
    /// 0 plain ascii, 1 + ': ' and punctuation, 2 + multi-byte, 3 + lengths around 255
    pub names: u8,
    pub max_recs: [usize; 3],
    pub rec_no_terms: bool,
    /// names must survive the text formats (no tab / newline / leading-trailing blanks)
    pub text_safe: bool,
    /// keep the number of distinct upward paths small (sub_ontology is exponential otherwise)
    pub cap_paths: bool,
    /// version must be renderable as YYYY-MM-DD
    pub text_version: bool,
    /// 0: HP:118 is a child of HP:1; 1: one level deeper (1 <- x <- 118); 2: detached (no parent)
    pub pheno_root_place: u8,
    /// some record is annotated to more than 30 terms (beyond the inline storage of a group)
    pub fat_record: bool,
}

impl GenCfg {
    pub fn draw(r: &mut Prng) -> GenCfg {
        let mut c = Self::draw0(r);
        if c.fat_record {
            c.n_terms = c.n_terms.max(36);
        }
        c
    }

    fn draw0(r: &mut Prng) -> GenCfg {
        let big = r.chance(1, 40);
        GenCfg {
            std_roots: r.chance(3, 4),
            n_terms: if big { r.urange(60, 300) } else if r.chance(1, 3) { r.urange(2, 8) } else { r.urange(4, 40) },
            shape: if r.chance(1, 12) { 5 } else { r.below(5) as u8 },
            extra_roots: r.chance(1, 3),
            redundant_edges: r.chance(1, 2),
            obsolete: r.chance(1, 2),
            id_corr: r.below(3) as u8,
            id_space: r.below(3) as u8,
            names: r.below(4) as u8,
            max_recs: {
                let mut m = [r.usize_below(12), r.usize_below(10), r.usize_below(8)];
                if r.chance(1, 60) {
                    // more than 255 / 256 records of one kind
                    m[r.usize_below(3)] = r.urange(250, 300);
                }
                m
            },
            rec_no_terms: r.chance(1, 3),
            text_safe: true,
            cap_paths: true,
            text_version: true,
            pheno_root_place: if r.chance(1, 12) { r.range(1, 2) as u8 } else { 0 },
            fat_record: r.chance(1, 16),
        }
    }
}

const WORDS: [&str; 24] = [
    "Abnormality", "of", "the", "head", "neck", "Growth", "abnormal", "morphology", "Mode", "inheritance",
    "Clinical", "modifier", "onset", "renal", "cyst", "Seizure", "All", "Phenotypic", "finger", "toe",
    "syndrome", "type", "susceptibility to", "deficiency",
];
const MB: [&str; 8] = ["é", "ß", "€", "ñ", "日本", "µ", "Ω", "𝛼"];

pub fn gen_name(r: &mut Prng, style: u8, text_safe: bool, longish: bool) -> String {
    let mut s = String::new();
    let n = r.urange(1, 4);
    for i in 0..n {
        if i > 0 {
            s.push(' ');
        }
        s.push_str(*r.pick(&WORDS[..]));
    }
    if style >= 1 && r.chance(1, 3) {
        let extra = [": ", ", ", " - ", ": x: y", " ! ", " {a=b}", "; ", "/", "'", "\"q\"", " (1)", "#"];
        let e = *r.pick(&extra);
        let pos = r.usize_below(s.len() + 1);
        let pos = (0..=pos).rev().find(|&p| s.is_char_boundary(p)).unwrap_or(0);
        s.insert_str(pos, e);
    }
    if style >= 1 && r.chance(1, 20) {
        // a run of blanks inside the name (column-aligned legacy titles)
        if let Some(pos) = s.find(' ') {
            s.insert_str(pos, &" ".repeat(r.urange(2, 4)));
        }
    }
    if style >= 1 && r.chance(1, 25) {
        // a name that merely *says* obsolete: the flag is a fact of its own
        s.insert_str(0, "obsolete ");
    }
    if style >= 2 && r.chance(1, 2) {
        let k = r.urange(1, 3);
        for _ in 0..k {
            let pos = r.usize_below(s.len() + 1);
            let pos = (0..=pos).rev().find(|&p| s.is_char_boundary(p)).unwrap_or(0);
            s.insert_str(pos, *r.pick(&MB[..]));
        }
    }
    if longish {
        // cluster the byte length around the 255 limit, often with a multi-byte
        // character straddling byte 255
        let target = r.urange(249, 262);
        while s.len() < target {
            if r.chance(1, 3) {
                s.push_str(*r.pick(&MB[..]));
            } else if r.chance(1, 7) && !s.ends_with(' ') {
                // blanks all along the name, so that the 255-byte cut sometimes lands right behind one
                s.push(' ');
            } else {
                s.push((b'a' + r.below(26) as u8) as char);
            }
        }
        if r.chance(1, 4) {
            for _ in 0..r.urange(1, 60) {
                s.push('z');
            }
        }
    }
    if r.chance(1, 60) {
        s.clear();
    }
    if text_safe {
        let t = s.trim().replace(['\t', '\n', '\r'], " ");
        s = t;
    }
    s
}

fn pick_ids(r: &mut Prng, n: usize, space: u8, with_std: bool) -> Vec<u32> {
    let mut set: BTreeSet<u32> = BTreeSet::new();
    let forced: [u32; 12] = [9_999_999, 2, 117, 119, 9_999_998, 5, 255, 256, 65_535, 65_536, 8_388_608, 9_437_184];
    match space {
        0 => {
            let hi = (n as u32) * 2 + 130;
            while set.len() < n {
                let v = r.range(2, u64::from(hi)) as u32;
                if with_std && (v == 1 || v == 118) {
                    continue;
                }
                set.insert(v);
            }
        }
        1 | _ => {
            if space == 2 {
                for f in forced {
                    if set.len() < n && r.chance(1, 2) {
                        set.insert(f);
                    }
                }
                if !with_std && r.chance(1, 2) && set.len() < n {
                    set.insert(1);
                }
                // the lower border of the 32-bit id space is a legal term id as well
                if r.chance(1, 3) && set.len() < n {
                    set.insert(0);
                }
            }
            while set.len() < n {
                let v = if r.chance(1, 4) {
                    r.range(2, 400) as u32
                } else {
                    r.range(2, 9_999_999) as u32
                };
                if v == 1 || v == 118 {
                    continue;
                }
                set.insert(v);
            }
        }
    }
    set.into_iter().collect()
}

/// Generates the abstract DAG on indices (edges child -> parent with parent < child),
/// then maps indices to ids.
pub fn gen_facts(r: &mut Prng, cfg: &GenCfg) -> FactSet {
    // index 0 = HP:1; HP:118 sits at `pheno`: index 1 (child of HP:1, or detached) or index 2 (one level deeper,
    // below an intermediate top-level term at index 1)
    let place = if cfg.std_roots { cfg.pheno_root_place } else { 0 };
    let pheno: usize = if place == 1 { 2 } else { 1 };
    let first = if cfg.std_roots { pheno + 1 } else { 1 };
    let n = cfg.n_terms.max(first);
    let mut parents: Vec<BTreeSet<usize>> = vec![BTreeSet::new(); n];
    // with std roots: a few top-level branches under 0 (modifier roots) and under HP:118 (categories)
    let mut top_mod: Vec<usize> = vec![];
    let mut top_cat: Vec<usize> = vec![];
    if cfg.std_roots {
        match place {
            0 => {
                parents[1].insert(0);
            }
            1 => {
                parents[1].insert(0);
                top_mod.push(1);
                parents[2].insert(1);
            }
            _ => {} // detached: HP:118 has no parent
        }
    }
    let mut i = first;
    if cfg.std_roots {
        let nm = r.urange(0, 3).min(n.saturating_sub(i));
        for _ in 0..nm {
            parents[i].insert(0);
            top_mod.push(i);
            i += 1;
        }
        let nc = r.urange(0, 4).min(n.saturating_sub(i));
        for _ in 0..nc {
            parents[i].insert(pheno);
            top_cat.push(i);
            i += 1;
        }
    }
    // a top-level term that is a child of HP:1 and of HP:118 at once
    if cfg.std_roots && place == 0 && r.chance(1, 10) {
        if let Some(&c) = top_cat.last() {
            parents[c].insert(0);
        }
    }
    // a category that lies below another category / modifier root (redundant top-level link)
    if cfg.std_roots && r.chance(1, 6) {
        let tops: Vec<usize> = top_mod.iter().chain(top_cat.iter()).copied().collect();
        if tops.len() >= 2 {
            let c = *r.pick(&tops);
            let lower: Vec<usize> = tops.iter().copied().filter(|t| *t < c).collect();
            if !lower.is_empty() {
                parents[c].insert(*r.pick(&lower));
            }
        }
    }
    let body_start = i;
    let width = r.urange(2, 5);
    while i < n {
        let lower = i; // candidates 0..i
        if cfg.extra_roots && r.chance(1, 12) {
            // a further root / disconnected term
            i += 1;
            continue;
        }
        match cfg.shape {
            0 => {
                parents[i].insert(i - 1);
            }
            1 => {
                parents[i].insert(r.usize_below(lower));
            }
            2 => {
                // ladder: both nodes of the previous rung
                let k = i - body_start;
                let rung = k / 2;
                if rung == 0 {
                    parents[i].insert(r.usize_below(lower.max(1)));
                } else {
                    let a = body_start + (rung - 1) * 2;
                    parents[i].insert(a);
                    if a + 1 < i {
                        parents[i].insert(a + 1);
                    }
                }
            }
            3 => {
                let k = i - body_start;
                let layer = k / width;
                if layer == 0 {
                    parents[i].insert(r.usize_below(lower.max(1)));
                } else {
                    let a = body_start + (layer - 1) * width;
                    let np = r.urange(1, 3);
                    for _ in 0..np {
                        parents[i].insert(a + r.usize_below(width));
                    }
                    if r.chance(1, 6) {
                        parents[i].insert(r.usize_below(a.max(1)));
                    }
                }
            }
            5 => {
                // wide: a fan of siblings under one node, then terms with very many direct parents
                // (more than the 30 ids a group stores inline)
                let k = i - body_start;
                let fan = ((n - body_start) / 2).max(1);
                if k < fan {
                    parents[i].insert(if body_start > 0 { body_start - 1 } else { 0 }.min(i - 1));
                } else {
                    let np = r.urange(2, fan.min(45));
                    for _ in 0..np {
                        parents[i].insert(body_start + r.usize_below(fan));
                    }
                }
            }
            _ => {
                let np = r.urange(1, 3);
                for _ in 0..np {
                    parents[i].insert(r.usize_below(lower));
                }
            }
        }
        i += 1;
    }
    // terms below both a modifier and a phenotype branch / several categories
    if cfg.std_roots && !top_mod.is_empty() && !top_cat.is_empty() && r.chance(1, 3) {
        for _ in 0..r.urange(1, 3) {
            if n > body_start {
                let c = body_start + r.usize_below(n - body_start);
                let p = if r.chance(1, 2) { *r.pick(&top_mod) } else { *r.pick(&top_cat) };
                if p < c {
                    parents[c].insert(p);
                }
            }
        }
    }
    // closure on indices (parents have lower index => one ascending pass)
    let mut anc: Vec<BTreeSet<usize>> = vec![BTreeSet::new(); n];
    for c in 0..n {
        let mut a = BTreeSet::new();
        for &p in &parents[c] {
            a.insert(p);
            a.extend(anc[p].iter().copied());
        }
        anc[c] = a;
    }
    if cfg.redundant_edges {
        let k = r.urange(0, (n / 4).max(1));
        for _ in 0..k {
            let c = r.usize_below(n);
            let cand: Vec<usize> = anc[c].iter().copied().filter(|a| !parents[c].contains(a)).collect();
            if !cand.is_empty() {
                parents[c].insert(*r.pick(&cand));
            }
        }
    }
    if cfg.cap_paths {
        // DP count of upward paths to any root; prune edges until small
        loop {
            let mut cnt = vec![0u64; n];
            let mut worst = 0u64;
            let mut worst_i = 0usize;
            for c in 0..n {
                cnt[c] = if parents[c].is_empty() { 1 } else { parents[c].iter().map(|&p| cnt[p]).fold(0u64, u64::saturating_add) };
                if cnt[c] > worst {
                    worst = cnt[c];
                    worst_i = c;
                }
            }
            if worst <= 20_000 {
                break;
            }
            // drop one parent of the worst node (keep at least one)
            if parents[worst_i].len() > 1 {
                let p = *parents[worst_i].iter().next_back().unwrap();
                parents[worst_i].remove(&p);
            } else {
                // walk up to a multi-parent ancestor
                let mut cur = worst_i;
                loop {
                    let p = *parents[cur].iter().next().unwrap();
                    if parents[p].len() > 1 {
                        let q = *parents[p].iter().next_back().unwrap();
                        parents[p].remove(&q);
                        break;
                    }
                    cur = p;
                    if parents[cur].is_empty() {
                        break;
                    }
                }
            }
        }
    }

    // ids
    let other = pick_ids(r, n - if cfg.std_roots { 2 } else { 0 }, cfg.id_space, cfg.std_roots);
    let mut other = other;
    match cfg.id_corr {
        0 => {}
        1 => other.reverse(),
        _ => r.shuffle(&mut other),
    }
    let mut ids: Vec<u32> = Vec::with_capacity(n);
    let mut rest = other.into_iter();
    for idx in 0..n {
        if cfg.std_roots && idx == 0 {
            ids.push(1);
        } else if cfg.std_roots && idx == pheno {
            ids.push(118);
        } else {
            ids.push(rest.next().expect("enough ids"));
        }
    }

    let long_budget = if cfg.names >= 3 { r.urange(1, 3) } else { 0 };
    let mut long_left = long_budget;
    let mut terms: Vec<TermFact> = Vec::with_capacity(n);
    for idx in 0..n {
        let longish = long_left > 0 && r.chance(1, (n as u64 / 2).max(1));
        if longish {
            long_left -= 1;
        }
        let name = if cfg.std_roots && idx == 0 && r.chance(1, 2) {
            "All".to_string()
        } else {
            gen_name(r, cfg.names, cfg.text_safe, longish)
        };
        terms.push(TermFact { id: ids[idx], name, obsolete: false, replacement: None });
    }
    let mut isa: Vec<(u32, u32)> = vec![];
    for c in 0..n {
        for &p in &parents[c] {
            isa.push((ids[c], ids[p]));
        }
    }
    if cfg.obsolete {
        let k = r.urange(1, (n / 5).max(1));
        for _ in 0..k {
            let idx = r.usize_below(n);
            if cfg.std_roots && (idx == 0 || idx == pheno) {
                continue;
            }
            terms[idx].obsolete = r.chance(4, 5);
            if r.chance(2, 3) {
                let tgt = r.usize_below(n);
                // id 0 cannot be a replacement target: the binary format encodes "no replacement" as 0
                if tgt != idx && ids[tgt] != 0 {
                    terms[idx].replacement = Some(ids[tgt]);
                    // sometimes the replacement is a term this ontology does not have (a cut-out of a larger one)
                    let foreign = ids[tgt] + 1;
                    if r.chance(1, 5) && foreign < 10_000_000 && !ids.contains(&foreign) {
                        terms[idx].replacement = Some(foreign);
                    }
                }
            }
        }
    }
    // generated order of the term facts themselves: shuffle so "as generated" is not topological
    if r.chance(1, 2) {
        r.shuffle(&mut terms);
    }
    if r.chance(1, 2) {
        r.shuffle(&mut isa);
    }

    // annotations
    let mk_recs = |r: &mut Prng, kind: Kind, maxn: usize| -> Vec<Rec> {
        let nrec = if maxn == 0 {
            0
        } else if maxn >= 256 && r.chance(1, 2) {
            // exactly at / around the one-byte boundary of a count
            *r.pick(&[255usize, 256, 256, 257])
        } else if maxn >= 40 {
            r.urange(maxn * 3 / 4, maxn)
        } else {
            r.urange(0, maxn)
        };
        let mut idset: BTreeSet<u32> = BTreeSet::new();
        while idset.len() < nrec {
            // deliberately overlapping numeric ids across kinds
            let v = if r.chance(3, 4) {
                r.range(1, 20) as u32
            } else if r.chance(1, 5) {
                // borders of the byte / word sizes a record id passes through
                *r.pick(&[0u32, 255, 256, 65_535, 65_536, 16_777_215, 16_777_216, 0x7FFF_FFFF, 0x8000_0000, 0xFF00_00FF, u32::MAX - 1, u32::MAX])
            } else {
                r.range(1, 4_000_000_000) as u32
            };
            idset.insert(v);
        }
        let mut out = vec![];
        for id in idset {
            let name = match kind {
                Kind::Gene => {
                    let longish = cfg.names >= 3 && r.chance(1, 8);
                    if longish {
                        gen_name(r, cfg.names, cfg.text_safe, true)
                    } else if r.chance(1, 10) {
                        // different genes sharing one symbol (the full ontology has 5132 genes and 5127 symbols)
                        format!("SYM{}", r.below(3))
                    } else if cfg.names >= 1 && r.chance(1, 20) {
                        // placeholder symbols of older releases
                        (*r.pick(&["-", "", "-", "C1orf 12"])).to_string()
                    } else {
                        format!("G{}{}", id % 1000, if cfg.names >= 2 && r.chance(1, 6) { "é" } else { "" })
                    }
                }
                _ if !out.is_empty() && r.chance(1, 6) => {
                    // a disease whose name contains the complete name of another one ("X" / "X, type 2")
                    let base: &Rec = &out[r.usize_below(out.len())];
                    format!("{}, type {}", base.name, r.range(2, 4))
                }
                _ => {
                    let mut s = gen_name(r, cfg.names.min(2), cfg.text_safe, false);
                    if cfg.names >= 3 && r.chance(1, 8) {
                        while s.len() < 300 {
                            s.push_str(" long");
                        }
                    }
                    if cfg.names >= 3 && r.chance(1, 60) {
                        // a disease name beyond 65 535 bytes (its length field has four bytes)
                        let unit = " a very long disease name indeed";
                        s.reserve(70_000);
                        while s.len() < 66_000 {
                            s.push_str(unit);
                        }
                    }
                    s
                }
            };
            let mut ts: BTreeSet<u32> = BTreeSet::new();
            let empty = cfg.rec_no_terms && r.chance(1, 4);
            if !empty {
                let nt = r.urange(1, 4);
                for _ in 0..nt {
                    let idx = r.usize_below(n);
                    ts.insert(ids[idx]);
                    // inner node + one of its descendants / an ancestor that is already
                    // reachable through another child
                    if r.chance(1, 3) && !anc[idx].is_empty() {
                        let a: Vec<usize> = anc[idx].iter().copied().collect();
                        ts.insert(ids[*r.pick(&a)]);
                    }
                }
            }
            out.push(Rec { id, name, terms: ts.into_iter().collect() });
        }
        if cfg.fat_record && n >= 33 && !out.is_empty() {
            // one record annotated to more than 30 terms
            let k = r.usize_below(out.len());
            let want = r.urange(31, n.min(48));
            let mut ts: BTreeSet<u32> = out[k].terms.iter().copied().collect();
            while ts.len() < want {
                ts.insert(ids[r.usize_below(n)]);
            }
            out[k].terms = ts.into_iter().collect();
        }
        if r.chance(1, 2) {
            r.shuffle(&mut out);
        }
        out
    };
    let genes = mk_recs(r, Kind::Gene, cfg.max_recs[0]);
    let omim = mk_recs(r, Kind::Omim, cfg.max_recs[1]);
    let orpha = mk_recs(r, Kind::Orpha, cfg.max_recs[2]);

    let version = if cfg.text_version {
        if r.chance(1, 10) {
            (0, 0, 0)
        } else {
            (r.range(1990, 2035) as u16, r.range(1, 12) as u8, r.range(1, 31) as u8)
        }
    } else {
        (r.below(65536) as u16, r.below(256) as u8, r.below(256) as u8)
    };
    let mut f = FactSet { version, terms, isa, genes, omim, orpha };
    f.normalise();
    f
}

// ------------------------------------------------------------------ real files of the repository

pub struct RealFile {
    pub name: &'static str,
    pub version: u8,
    pub facts: FactSet,
    pub bytes: Vec<u8>,
}

/// The binary files shipped under `<repo>/tests`, decoded with the independent decoder.
/// `big` adds tests/ontology.hpo (the full ontology). Files that are missing or do not decode are skipped.
pub fn real_files(big: bool) -> &'static Vec<RealFile> {
    use std::sync::OnceLock;
    static SMALL: OnceLock<Vec<RealFile>> = OnceLock::new();
    static BIG: OnceLock<Vec<RealFile>> = OnceLock::new();
    let load = |names: &[&'static str]| -> Vec<RealFile> {
        let repo = std::env::var("HPOSIM_REPO").unwrap_or_else(|_| "/repo".to_string());
        let mut v = vec![];
        for n in names {
            if let Ok(bytes) = std::fs::read(format!("{repo}/tests/{n}")) {
                if let Ok((version, facts)) = crate::binenc::decode(&bytes) {
                    v.push(RealFile { name: n, version, facts, bytes });
                }
            }
        }
        v
    };
    if big {
        BIG.get_or_init(|| load(&["ontology.hpo"]))
    } else {
        SMALL.get_or_init(|| load(&["example.hpo", "example_v1.hpo", "example_v2.hpo"]))
    }
}

/// A shallow forest with `n` terms and sparse ids (for the 65 536-term threshold of index types)
pub fn many_terms_facts(r: &mut Prng, n: usize, with_std_roots: bool) -> FactSet {
    let mut facts = FactSet::default();
    let mut ids: BTreeSet<u32> = BTreeSet::new();
    if with_std_roots {
        ids.insert(1);
        ids.insert(118);
    }
    while ids.len() < n {
        ids.insert(r.range(2, 9_999_999) as u32);
    }
    let v: Vec<u32> = ids.iter().copied().collect();
    for (k, id) in v.iter().enumerate() {
        facts.terms.push(TermFact { id: *id, name: format!("t{id}"), obsolete: false, replacement: None });
        if with_std_roots {
            // 1 <- 118 <- five categories <- every 7th term <- the six terms after it
            // (few categories: HpoTerm::categories() costs terms x categories group unions)
            let cats: Vec<u32> = v.iter().copied().filter(|x| *x != 1 && *x != 118).take(5).collect();
            if *id == 118 {
                facts.isa.push((118, 1));
            } else if cats.contains(id) {
                facts.isa.push((*id, 118));
            } else if *id != 1 {
                if k % 7 == 0 {
                    facts.isa.push((*id, cats[k % cats.len()]));
                } else {
                    let p = v[k - k % 7];
                    facts.isa.push((*id, if p == 1 || p == 118 || cats.contains(&p) { cats[k % cats.len()] } else { p }));
                }
            }
        } else if k % 7 != 0 {
            facts.isa.push((*id, v[k - k % 7]));
        }
    }
    for j in 0..5u32 {
        facts.omim.push(Rec { id: j + 1, name: format!("disease {j}"), terms: vec![v[(j as usize * 1000) % v.len()]] });
    }
    // records on the terms that are stored first and last under the ascending / descending / as-generated orders, and on a
    // few anywhere: information content and links of terms at storage positions around and beyond 65 535
    let n = v.len();
    let mut spots: Vec<usize> = vec![n - 1, n - 2, n - 40, 2, 3, 41];
    for _ in 0..12 {
        spots.push(r.usize_below(n));
    }
    for (j, k) in spots.into_iter().enumerate() {
        let k = k.min(n - 1);
        let rec = Rec { id: 100 + j as u32, name: format!("G{j}"), terms: vec![v[k]] };
        match j % 3 {
            0 => facts.genes.push(rec),
            1 => facts.orpha.push(rec),
            _ => facts.omim.push(rec),
        }
    }
    facts.normalise();
    facts
}

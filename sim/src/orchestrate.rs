//! Worker processes, sharding, merge, watchdog, minimisation, known-findings filter,
//! output lines, evidence, exit code.

use crate::minimise::Minimiser;
use crate::props::{execute, generate};
use crate::replica::{Counters, Ctx};
use crate::scenario::{Scenario, Violation};
use serde::{Deserialize, Serialize};
use std::collections::{BTreeMap, BTreeSet};
use std::io::Write;
use std::process::{Command, Stdio};
use std::sync::atomic::{AtomicU64, Ordering};
use std::time::Instant;

#[derive(Clone, Debug, Serialize, Deserialize)]
pub struct Found {
    pub run: u64,
    pub class: String,
    pub detail: String,
}

#[derive(Clone, Debug, Default, Serialize, Deserialize)]
pub struct WorkerReport {
    pub runs: u64,
    pub nontrivial: u64,
    pub ontologies: u64,
    pub counters: Counters,
    pub fingerprints: Vec<u64>,
    pub nontrivial_fingerprints: Vec<u64>,
    pub obs_digests: Vec<u64>,
    pub combined_digest: u64,
    pub per_run: Vec<(u64, u64)>,
    pub violations: Vec<Found>,
    pub violating_runs: u64,
    pub collateral: Vec<String>,
    pub samples: Vec<serde_json::Value>,
    pub wall_s: f64,
    pub hang: Option<u64>,
    /// runs during which a worker process died (signal), with a description
    #[serde(default)]
    pub aborted: Vec<(u64, String)>,
}

#[derive(Clone, Debug)]
pub struct Plan {
    pub prop: String,
    pub seed: u64,
    pub runs: u64,
    pub workers: u64,
    pub thorough: bool,
    pub digests: bool,
}

static CURRENT_RUN: AtomicU64 = AtomicU64::new(u64::MAX);
static CURRENT_SINCE_MS: AtomicU64 = AtomicU64::new(0);

pub const HANG_LIMIT_S: u64 = 300;

pub fn sample_of(s: &Scenario, ctx_trace: Option<&Vec<String>>) -> serde_json::Value {
    let mut v = serde_json::json!({
        "run": s.run,
        "mode": s.mode,
        "n_terms": s.facts.terms.len(),
        "n_links": s.facts.isa.len(),
        "records": [s.facts.genes.len(), s.facts.omim.len(), s.facts.orpha.len()],
        "replicas": s.replicas.iter().map(|r| format!("{} terms:{:?} links:{:?} anns:{:?} dup:{}‰ hash-mode:{} file:{}", r.label(), r.term_order.mode, r.link_order.mode, r.ann_order.mode, r.dup.permille, r.hash.0, r.via_file)).collect::<Vec<_>>(),
    });
    if let Some(sub) = &s.sub {
        v["sub"] = serde_json::json!({"root": sub.root, "leaves": sub.leaves, "hash_mode": sub.hash.0});
    }
    if !s.ops.is_empty() {
        v["ops"] = serde_json::json!(s.ops.iter().take(12).map(|o| format!("{o:?}")).collect::<Vec<_>>());
    }
    if !s.edits.is_empty() {
        v["edits"] = serde_json::json!(s.edits.iter().map(|o| format!("{o:?}")).collect::<Vec<_>>());
    }
    if let Some(d) = &s.disk {
        v["disk"] = serde_json::to_value(d).unwrap();
    }
    if !s.drop_terms.is_empty() {
        v["dropped_term_facts"] = serde_json::json!(s.drop_terms);
    }
    if let Some(bf) = &s.byte_fault {
        v["byte_fault"] = serde_json::json!(bf);
    }
    if let Some(t) = ctx_trace {
        v["events"] = serde_json::json!(t.iter().take(40).collect::<Vec<_>>());
    }
    v
}

pub fn worker(plan: &Plan, k: u64) -> WorkerReport {
    std::panic::set_hook(Box::new(|_| {}));
    let start = Instant::now();
    let mut rep = WorkerReport::default();
    let mut ctx = Ctx::new(false);
    // watchdog: a run that makes no progress within the limit is reported as a hang
    {
        let t0 = Instant::now();
        std::thread::spawn(move || loop {
            std::thread::sleep(std::time::Duration::from_millis(500));
            let run = CURRENT_RUN.load(Ordering::Relaxed);
            if run == u64::MAX {
                continue;
            }
            let since = CURRENT_SINCE_MS.load(Ordering::Relaxed);
            let now = t0.elapsed().as_millis() as u64;
            if now.saturating_sub(since) > HANG_LIMIT_S * 1000 {
                let r = WorkerReport { hang: Some(run), ..Default::default() };
                println!("{}", serde_json::to_string(&r).unwrap());
                let _ = std::io::stdout().flush();
                std::process::exit(3);
            }
        });
        let mut fps: BTreeSet<u64> = BTreeSet::new();
        let mut nfps: BTreeSet<u64> = BTreeSet::new();
        let mut digs: BTreeSet<u64> = BTreeSet::new();
        let mut classes: BTreeSet<String> = BTreeSet::new();
        // progress file: lets the parent name the run if this process dies without a report
        // (stack overflow / abort inside library code cannot be caught in-process)
        let progress = std::fs::File::create(ctx.scratch.join("progress")).ok();
        let mut run = k;
        while run < plan.runs {
            CURRENT_SINCE_MS.store(t0.elapsed().as_millis() as u64, Ordering::Relaxed);
            CURRENT_RUN.store(run, Ordering::Relaxed);
            if let Some(f) = &progress {
                use std::os::unix::fs::FileExt;
                let _ = f.write_all_at(&run.to_le_bytes(), 0);
            }
            let s = generate(&plan.prop, plan.seed, run, plan.thorough);
            let out = match crate::obs::guarded(|| execute(&mut ctx, &s)) {
                Ok(o) => o,
                Err(p) => {
                    // a panic that escaped the per-call guards is a harness error, not a verdict
                    rep.collateral.push(format!("HARNESS-PANIC run {run}: {p}"));
                    run += plan.workers;
                    continue;
                }
            };
            rep.runs += 1;
            rep.ontologies += out.ontologies;
            if out.nontrivial {
                rep.nontrivial += 1;
                if nfps.len() < 200_000 {
                    nfps.insert(out.fingerprint);
                }
            }
            if fps.len() < 200_000 {
                fps.insert(out.fingerprint);
            }
            if digs.len() < 200_000 {
                digs.insert(out.digest);
            }
            rep.combined_digest ^= crate::prng::mix2(run, out.digest);
            if plan.digests {
                rep.per_run.push((run, out.digest));
            }
            if !out.violations.is_empty() {
                rep.violating_runs += 1;
                for v in &out.violations {
                    if classes.insert(v.class.clone()) && rep.violations.len() < 40 {
                        rep.violations.push(Found { run, class: v.class.clone(), detail: v.detail.clone() });
                    }
                }
            }
            for c in out.collateral {
                if rep.collateral.len() < 8 {
                    rep.collateral.push(format!("run {run}: {c}"));
                }
            }
            if rep.samples.len() < 2 && (out.nontrivial || run + plan.workers >= plan.runs) {
                // re-run traced to show what the case looked like
                let mut tctx = Ctx::new(true);
                let _ = crate::obs::guarded(|| execute(&mut tctx, &s));
                rep.samples.push(sample_of(&s, tctx.trace.as_ref()));
            }
            run += plan.workers;
        }
        CURRENT_RUN.store(u64::MAX, Ordering::Relaxed);
        rep.fingerprints = fps.into_iter().collect();
        rep.nontrivial_fingerprints = nfps.into_iter().collect();
        rep.obs_digests = digs.into_iter().collect();
    }
    rep.counters = ctx.counters.clone();
    ctx.cleanup();
    rep.wall_s = start.elapsed().as_secs_f64();
    rep
}

pub struct Merged {
    pub rep: WorkerReport,
    pub harness_errors: Vec<String>,
}

pub fn spawn_workers(plan: &Plan) -> Merged {
    let exe = std::env::current_exe().expect("own path");
    let mut children = vec![];
    for k in 0..plan.workers {
        let mut c = Command::new(&exe);
        c.arg("worker")
            .arg(&plan.prop)
            .arg(plan.seed.to_string())
            .arg(k.to_string())
            .arg(plan.workers.to_string())
            .arg(plan.runs.to_string())
            .arg(if plan.thorough { "thorough" } else { "quick" })
            .arg(if plan.digests { "digests" } else { "nodigests" })
            .stdout(Stdio::piped())
            .stderr(Stdio::null());
        children.push(c.spawn().expect("spawn worker"));
    }
    let mut m = WorkerReport::default();
    let mut errs = vec![];
    let mut fps: BTreeSet<u64> = BTreeSet::new();
    let mut nfps: BTreeSet<u64> = BTreeSet::new();
    let mut digs: BTreeSet<u64> = BTreeSet::new();
    let mut classes: BTreeSet<String> = BTreeSet::new();
    for (k, ch) in children.into_iter().enumerate() {
        let pid = ch.id();
        let o = ch.wait_with_output().expect("wait worker");
        let text = String::from_utf8_lossy(&o.stdout);
        let Some(line) = text.lines().rev().find(|l| l.starts_with('{')) else {
            // the worker died (signal): the progress file names the run it was executing
            let base = std::env::var("HPOSIM_SCRATCH").unwrap_or_else(|_| "/verif/target/scratch".to_string());
            let dir = std::path::PathBuf::from(base).join(format!("p{pid}"));
            let died_at = std::fs::read(dir.join("progress")).ok().filter(|b| b.len() >= 8).map(|b| u64::from_le_bytes([b[0], b[1], b[2], b[3], b[4], b[5], b[6], b[7]]));
            let _ = std::fs::remove_dir_all(&dir);
            match died_at {
                Some(run) => {
                    use std::os::unix::process::ExitStatusExt;
                    m.aborted.push((run, format!("worker process died with signal {:?} (stack overflow or abort inside a library call)", o.status.signal())));
                }
                None => errs.push(format!("worker {k}: no report (exit {:?})", o.status.code())),
            }
            continue;
        };
        let r: WorkerReport = match serde_json::from_str(line) {
            Ok(r) => r,
            Err(e) => {
                errs.push(format!("worker {k}: unreadable report: {e}"));
                continue;
            }
        };
        if let Some(run) = r.hang {
            m.hang = Some(run);
            continue;
        }
        m.runs += r.runs;
        m.nontrivial += r.nontrivial;
        m.ontologies += r.ontologies;
        m.counters.merge(&r.counters);
        fps.extend(r.fingerprints);
        nfps.extend(r.nontrivial_fingerprints);
        digs.extend(r.obs_digests);
        m.combined_digest ^= r.combined_digest;
        m.per_run.extend(r.per_run);
        m.violating_runs += r.violating_runs;
        for v in r.violations {
            if classes.insert(v.class.clone()) {
                m.violations.push(v);
            }
        }
        for c in r.collateral {
            if c.starts_with("HARNESS-PANIC") {
                errs.push(c);
            } else if m.collateral.len() < 12 {
                m.collateral.push(c);
            }
        }
        if m.samples.len() < 3 {
            m.samples.extend(r.samples.into_iter().take(1));
        }
        m.wall_s = m.wall_s.max(r.wall_s);
    }
    m.violations.sort_by_key(|v| v.run);
    m.per_run.sort_unstable();
    m.fingerprints = fps.into_iter().collect();
    m.nontrivial_fingerprints = nfps.into_iter().collect();
    m.obs_digests = digs.into_iter().collect();
    Merged { rep: m, harness_errors: errs }
}

#[derive(Clone, Debug, Serialize, Deserialize)]
pub struct ReplayFile {
    pub property: String,
    pub class: String,
    pub detail: String,
    pub seed: u64,
    pub run: u64,
    pub unminimised_size: usize,
    pub minimised_size: usize,
    pub minimiser_executions: usize,
    /// human-readable delivered events / fault trace of the minimised scenario
    pub trace: Vec<String>,
    pub scenario: Scenario,
    /// runs (same seed / property / tier) executed in the same process before the scenario: only filled when the
    /// violation does not occur in a fresh process, i.e. it depends on state the library kept from earlier ontologies
    #[serde(default)]
    pub history: Vec<u64>,
    #[serde(default)]
    pub thorough: bool,
}

/// Minimise, re-confirm, write the replay file. Returns its path and the file content.
pub fn hang_limit_s() -> u64 {
    std::env::var("HPOSIM_HANG_LIMIT_S").ok().and_then(|v| v.parse().ok()).unwrap_or(HANG_LIMIT_S)
}

/// Does `hposim replay <path>` in a FRESH process report the recorded class?
fn confirms_in_fresh_process(path: &str, class: &str) -> bool {
    let Ok(exe) = std::env::current_exe() else { return false };
    // a run takes milliseconds: for the confirmation 20 s without progress are decisive for `hang`
    let Ok(o) = Command::new(exe).arg("replay").arg(path).env("HPOSIM_HANG_LIMIT_S", "20").stderr(Stdio::null()).output() else { return false };
    let text = String::from_utf8_lossy(&o.stdout);
    o.status.code() == Some(1) && text.lines().any(|l| l.trim() == format!("class={class}") || l.trim().starts_with(&format!("class={class}:")))
}

/// Make sure the replay file reproduces in a fresh process; if the scenario alone does not, prepend the shortest
/// reproducing suffix of the runs its worker had executed before it (state kept by the library between ontologies).
pub fn ensure_reproducible(path: &str, rf: &mut ReplayFile, workers: u64) -> bool {
    let write = |rf: &ReplayFile| serde_json::to_string_pretty(rf).ok().and_then(|t| std::fs::write(path, t).ok()).is_some();
    if confirms_in_fresh_process(path, &rf.class) {
        return true;
    }
    if workers == 0 {
        return false;
    }
    let k = rf.run % workers;
    let full: Vec<u64> = (0..).map(|i| k + i * workers).take_while(|r| *r < rf.run).collect();
    let mut len = 1usize;
    loop {
        let take = len.min(full.len());
        rf.history = full[full.len() - take..].to_vec();
        if !write(rf) {
            return false;
        }
        if take > 0 && confirms_in_fresh_process(path, &rf.class) {
            rf.detail = format!("{} [occurs only after {} earlier run(s) in the same process: the library keeps state between ontologies]", rf.detail, rf.history.len());
            write(rf);
            return true;
        }
        if take == full.len() {
            break;
        }
        len *= 4;
    }
    rf.history = vec![];
    rf.detail = format!("{} [NOT reproduced in a fresh process, neither alone nor after the worker's earlier runs]", rf.detail);
    write(rf);
    false
}

pub fn make_replay(prop: &str, seed: u64, found: &Found, thorough: bool, workers: u64) -> Option<(String, ReplayFile)> {
    let s0 = generate(prop, seed, found.run, thorough);
    let mut ctx = Ctx::new(false);
    let size0 = s0.facts.size() + s0.replicas.len() + s0.ops.len() + s0.edits.len();
    let (s, execs) = {
        let mut m = Minimiser { ctx: &mut ctx, class: found.class.clone(), budget: 2000, execs: 0, deadline: std::time::Instant::now() + std::time::Duration::from_secs(90) };
        let s = m.run(s0.clone());
        (s, m.execs)
    };
    // confirm + trace
    let mut tctx = Ctx::new(true);
    let out = crate::obs::guarded(|| execute(&mut tctx, &s)).ok()?;
    let v: Option<&Violation> = out.violations.iter().find(|v| v.class == found.class).or(out.violations.first());
    let (s, v_detail, v_class) = match v {
        Some(v) => (s, v.detail.clone(), v.class.clone()),
        None => (s0, found.detail.clone(), found.class.clone()), // minimised form did not confirm: keep the original
    };
    let size1 = s.facts.size() + s.replicas.len() + s.ops.len() + s.edits.len();
    let mut rf = ReplayFile {
        property: prop.to_string(),
        class: v_class,
        detail: v_detail,
        seed,
        run: found.run,
        unminimised_size: size0,
        minimised_size: size1,
        minimiser_executions: execs,
        trace: tctx.trace.clone().unwrap_or_default(),
        scenario: s,
        history: vec![],
        thorough,
    };
    let dir = format!("{}/replays", out_dir());
    let _ = std::fs::create_dir_all(&dir);
    let cls: String = rf.class.chars().map(|c| if c.is_ascii_alphanumeric() { c } else { '_' }).take(60).collect();
    let path = format!("{dir}/{prop}-{seed}-{}-{cls}.json", found.run);
    std::fs::write(&path, serde_json::to_string_pretty(&rf).ok()?).ok()?;
    ctx.cleanup();
    // The file must reproduce in a fresh process. The minimiser ran many executions in THIS process; if the library
    // keeps state between ontologies (a static cache, say) the minimised form may only fail here. Fall back step by
    // step: the unminimised scenario alone, then the scenario preceded by the runs its worker had executed before it
    // (shortest reproducing suffix of that history).
    if !confirms_in_fresh_process(&path, &rf.class) {
        rf.scenario = generate(prop, seed, found.run, thorough);
        rf.class = found.class.clone();
        rf.detail = found.detail.clone();
        rf.minimised_size = size0;
        rf.trace = vec![];
        std::fs::write(&path, serde_json::to_string_pretty(&rf).ok()?).ok()?;
        ensure_reproducible(&path, &mut rf, workers);
    }
    Some((path, rf))
}

/// Where evidence and replay files go (default /verif; HPOSIM_OUT redirects scratch experiments)
pub fn out_dir() -> String {
    std::env::var("HPOSIM_OUT").unwrap_or_else(|_| "/verif".to_string())
}

pub fn counters_by_prefix(c: &Counters, prefix: &str) -> BTreeMap<String, u64> {
    c.c.iter().filter(|(k, _)| k.starts_with(prefix)).map(|(k, v)| (k[prefix.len()..].to_string(), *v)).collect()
}

//! Renderers for the JAX text formats (models of the upstream exporters — stubs).
//! Files stay inside what real JAX files look like: every stanza line is `key: value`,
//! `is_a` carries ` ! label`, annotation files start with their header.

use crate::channel::{ordered_terms, Dup, Order};
use crate::facts::{FactSet, Kind};
use crate::prng::{mix2, Prng};
use serde::{Deserialize, Serialize};
use std::collections::BTreeMap;

#[derive(Clone, Copy, Debug, PartialEq, Eq, Serialize, Deserialize)]
pub struct TextSpec {
    pub stanzas: Order,
    pub gene_rows: Order,
    pub disease_rows: Order,
    pub dup: Dup,
    /// rate of injected ignorable content
    pub ign_permille: u32,
    pub ign_seed: u64,
    pub transitive: bool,
    /// hp.obo starts directly with the first [Term] stanza (no header block, hence no data-version)
    #[serde(default)]
    pub no_obo_header: bool,
    /// transitive gene file without some of the ancestor rows (see `Proj::TextTransitivePartial`)
    #[serde(default)]
    pub trans_partial: Option<u64>,
}

impl TextSpec {
    pub fn draw(r: &mut Prng, transitive: bool) -> TextSpec {
        TextSpec {
            stanzas: Order::draw(r),
            gene_rows: Order::draw(r),
            disease_rows: Order::draw(r),
            dup: Dup::draw(r),
            ign_permille: if r.chance(1, 3) { 0 } else { *r.pick(&[50u32, 200, 500]) },
            ign_seed: r.next_u64(),
            transitive,
            no_obo_header: false,
            trans_partial: None,
        }
    }
    pub fn canonical(transitive: bool) -> TextSpec {
        TextSpec { stanzas: Order::canonical(), gene_rows: Order::canonical(), disease_rows: Order::canonical(), dup: Dup::none(), ign_permille: 0, ign_seed: 0, transitive, no_obo_header: false, trans_partial: None }
    }
}

#[derive(Clone, Debug, Default)]
pub struct TextFiles {
    pub obo: String,
    pub genes: String,
    pub hpoa: String,
    /// count of injected ignorable items by kind
    pub injected: BTreeMap<&'static str, u64>,
    pub dup_rows: u64,
}

fn hp(id: u32) -> String {
    format!("HP:{id:07}")
}

pub fn render(f: &FactSet, spec: &TextSpec) -> TextFiles {
    let mut out = TextFiles::default();
    let ign = |salt: u64, key: u64| -> bool { spec.ign_permille > 0 && (mix2(spec.ign_seed ^ salt, key) % 1000) < u64::from(spec.ign_permille) };
    let names: BTreeMap<u32, &str> = f.terms.iter().map(|t| (t.id, t.name.as_str())).collect();
    let pm = f.parents_map();

    // ---------------------------------------------------------------- hp.obo
    let mut obo = String::new();
    if !spec.no_obo_header {
        obo.push_str("format-version: 1.2\n");
    }
    if !spec.no_obo_header && ign(1, 1) {
        obo.push_str("subsetdef: hposlim_core \"Core clinical terminology\"\n");
        *out.injected.entry("obo-header-line").or_default() += 1;
    }
    if !spec.no_obo_header {
        obo.push_str(&format!("data-version: hp/releases/{:04}-{:02}-{:02}\n", f.version.0, f.version.1, f.version.2));
    } else {
        *out.injected.entry("obo-without-header-block").or_default() += 1;
    }
    if !spec.no_obo_header && ign(1, 2) {
        obo.push_str("saved-by: Peter Robinson, Sebastian Koehler\ndefault-namespace: human_phenotype\nontology: hp.obo\n");
        *out.injected.entry("obo-header-line").or_default() += 1;
    }
    let mut fired = 0u64;
    let stanzas = ordered_terms(f, spec.stanzas, Dup::none(), &mut fired);
    for (i, t) in stanzas.iter().enumerate() {
        let k = u64::from(t.id);
        if ign(2, k) {
            obo.push_str("\n[Typedef]\nid: part_of\nname: part of\nxref: BFO:0000050\nis_transitive: true\n");
            *out.injected.entry("typedef-stanza").or_default() += 1;
        }
        obo.push_str("\n[Term]\n");
        obo.push_str(&format!("id: {}\n", hp(t.id)));
        if ign(3, k) {
            obo.push_str(&format!("alt_id: {}\n", hp(t.id % 5000 + 9_000_000)));
            *out.injected.entry("stanza-extra-line").or_default() += 1;
        }
        obo.push_str(&format!("name: {}\n", t.name));
        if ign(4, k) {
            obo.push_str("def: \"A name: with colon, and an is_a: HP:0000001 inside the text.\" [HPO:probinson]\n");
            obo.push_str("synonym: \"replaced_by: nothing\" EXACT layperson []\n");
            obo.push_str("xref: UMLS:C0444868\n");
            *out.injected.entry("stanza-extra-line").or_default() += 1;
        }
        // is_a lines in a seeded order of their own
        let mut ps: Vec<u32> = pm[&t.id].iter().copied().collect();
        ps.sort_by_key(|p| mix2(spec.stanzas.seed ^ 0x15A, u64::from(*p) ^ (k << 32)));
        for (pi, p) in ps.into_iter().enumerate() {
            let label = names.get(&p).copied().unwrap_or("");
            // OBO does not fix the order of tags: another tag may sit between two is_a lines
            if ign(21, k ^ (u64::from(p) << 7)) {
                obo.push_str(if pi % 2 == 0 { "xref: SNOMEDCT_US:123456\n" } else { "comment: a remark between two is_a tags\n" });
                if pi > 0 {
                    *out.injected.entry("is_a-lines-separated-by-another-tag").or_default() += 1;
                }
            }
            if ign(5, k ^ u64::from(p)) {
                obo.push_str(&format!("is_a: {} {{source=\"x\"}} ! {}\n", hp(p), label));
                *out.injected.entry("is_a-with-modifier").or_default() += 1;
            } else {
                obo.push_str(&format!("is_a: {} ! {}\n", hp(p), label));
            }
            // the same is_a fact stated twice in one stanza (a merge artefact): still one link
            if spec.dup.hits(k ^ (u64::from(p) << 9)) > 0 {
                obo.push_str(&format!("is_a: {} ! {}\n", hp(p), label));
                out.dup_rows += 1;
                *out.injected.entry("is_a-line-repeated").or_default() += 1;
            }
        }
        if ign(6, k) {
            obo.push_str("property_value: http://purl.org/dc/elements/1.1/date \"2021-06-21T10:00:00Z\" xsd:dateTime\n");
            *out.injected.entry("stanza-extra-line").or_default() += 1;
        }
        if t.obsolete {
            obo.push_str("is_obsolete: true\n");
        } else if ign(7, k) {
            obo.push_str("is_obsolete: false\n");
            *out.injected.entry("is_obsolete-false").or_default() += 1;
        }
        if let Some(r) = t.replacement {
            obo.push_str(&format!("replaced_by: {}\n", hp(r)));
        }
        if ign(8, k) {
            obo.push_str("created_by: doelkens\ncreation_date: 2012-04-02T10:22:04Z\n");
            *out.injected.entry("stanza-extra-line").or_default() += 1;
        }
        let _ = i;
    }
    if ign(9, 9) {
        obo.push_str("\n[Typedef]\nid: has_modifier\nname: has modifier\n");
        *out.injected.entry("typedef-stanza").or_default() += 1;
    }
    if ign(10, 10) {
        obo.push('\n');
    }
    if spec.no_obo_header {
        // the file starts with the first stanza line
        obo = obo.trim_start_matches('\n').to_string();
    }
    out.obo = obo;

    // ---------------------------------------------------------------- gene file
    let depth = f.depths();
    let anc = if spec.transitive { Some(crate::model::closure(f)) } else { None };
    let mut rows: Vec<Row> = vec![];
    for g in &f.genes {
        let mut ts: std::collections::BTreeSet<u32> = g.terms.iter().copied().collect();
        if let Some(a) = &anc {
            for t in &g.terms {
                match spec.trans_partial {
                    None => ts.extend(a[t].iter().copied()),
                    Some(seed) => {
                        for x in a[t].iter().copied() {
                            if crate::facts::trans_row_kept(seed, g.id, x) {
                                ts.insert(x);
                            } else if !g.terms.contains(&x) {
                                *out.injected.entry("transitive-ancestor-row-absent").or_default() += 1;
                            }
                        }
                    }
                }
            }
        }
        for t in ts {
            let key = mix2(u64::from(g.id), u64::from(t));
            let label = names.get(&t).copied().unwrap_or("");
            let extra = if ign(11, key) {
                *out.injected.entry("extra-trailing-columns").or_default() += 1;
                "\textra\tcolumns\there"
            } else {
                ""
            };
            // older releases of both gene files end right after the last column the loaders read
            let minimal = ign(18, key);
            if minimal {
                *out.injected.entry("minimal-columns-row").or_default() += 1;
            }
            let text = match (spec.transitive, minimal) {
                (true, true) => format!("{}\t{}\t{}\t{}", hp(t), label, g.id, g.name),
                (true, false) => format!("{}\t{}\t{}\t{}\t-\tmim2gene\tOMIM:{}{}", hp(t), label, g.id, g.name, 100_000 + g.id % 1000, extra),
                (false, true) => format!("{}\t{}\t{}", g.id, g.name, hp(t)),
                (false, false) => format!("{}\t{}\t{}\t{}\t-\tOMIM:{}{}", g.id, g.name, hp(t), label, 100_000 + g.id % 1000, extra),
            };
            rows.push(Row { key, depth: u64::from(depth.get(&t).copied().unwrap_or(0)), text });
        }
    }
    let rows = arrange_rows(rows, spec.gene_rows, spec.dup, &mut out.dup_rows);
    let header = match mix2(spec.ign_seed, 77) % 3 {
        0 if spec.transitive => "#Format: HPO-id<tab>HPO label<tab>entrez-gene-id<tab>entrez-gene-symbol<tab>Additional Info from G-D source<tab>G-D source<tab>disease-ID for link".to_string(),
        0 => "#Format: entrez-gene-id<tab>entrez-gene-symbol<tab>HPO-Term-ID<tab>HPO-Term-Name".to_string(),
        1 if spec.transitive => "hpo_id\thpo_name\tncbi_gene_id\tgene_symbol\tdisease_id".to_string(),
        1 => "ncbi_gene_id\tgene_symbol\thpo_id\thpo_name\tfrequency\tdisease_id".to_string(),
        _ if spec.transitive => "hpo_id\thpo_name\tncbi_gene_id\tgene_symbol".to_string(),
        _ => "ncbi_gene_id\tgene_symbol\thpo_id\thpo_name".to_string(),
    };
    let mut s = header;
    s.push('\n');
    for r in rows {
        s.push_str(&r.text);
        s.push('\n');
    }
    out.genes = s;

    // ---------------------------------------------------------------- phenotype.hpoa
    let mut rows: Vec<Row> = vec![];
    for (kind, prefix) in [(Kind::Omim, "OMIM"), (Kind::Orpha, "ORPHA")] {
        for d in f.recs(kind) {
            for t in &d.terms {
                let key = mix2(mix2(kind as u64 + 3, u64::from(d.id)), u64::from(*t));
                let extra = if ign(12, key) {
                    *out.injected.entry("extra-trailing-columns").or_default() += 1;
                    "\tmore\tcolumns"
                } else {
                    ""
                };
                let text = if ign(19, key) {
                    *out.injected.entry("minimal-columns-row").or_default() += 1;
                    format!("{}:{}\t{}\t\t{}", prefix, d.id, d.name, hp(*t))
                } else {
                    format!("{}:{}\t{}\t\t{}\tPMID:31675180\tPCS\t\t1/2\t\tP\tHPO:probinson[2021-06-21]{}", prefix, d.id, d.name, hp(*t), extra)
                };
                // in the id-sorted modes the file is sorted by numeric disease id and term, whatever the
                // database prefix, so OMIM:n and ORPHA:n rows for one term are neighbours
                let key = if matches!(spec.disease_rows.mode, crate::channel::Mode::IdAsc | crate::channel::Mode::IdDesc) { (u64::from(d.id) << 33) | (u64::from(*t) << 1) | (kind as u64 & 1) } else { key };
                rows.push(Row { key, depth: u64::from(depth.get(t).copied().unwrap_or(0)), text });
                // a NOT row for the very pair that another row asserts (two sources disagreeing): the positive row still
                // counts; keyed to sit directly before it in the id-sorted modes
                if ign(20, key) {
                    rows.push(Row { key: key.wrapping_sub(1), depth: u64::from(depth.get(t).copied().unwrap_or(0)), text: format!("{}:{}\t{}\tNOT\t{}\tPMID:2\tTAS\t\t\t\tP\tHPO:y[2019-01-01]", prefix, d.id, d.name, hp(*t)) });
                    *out.injected.entry("NOT-row-contradicting-a-positive-row").or_default() += 1;
                }
                // NOT row: a (disease, term) pair that is *not* a fact
                if ign(13, key) {
                    if let Some(other) = f.terms.iter().map(|x| x.id).find(|x| !d.terms.contains(x)) {
                        rows.push(Row {
                            key: key ^ 0x5A5A,
                            depth: 0,
                            text: format!("{}:{}\t{}\tNOT\t{}\tPMID:1\tPCS\t\t\t\tP\tHPO:x[2018-10-03]", prefix, d.id, d.name, hp(other)),
                        });
                        *out.injected.entry("NOT-row").or_default() += 1;
                    }
                }
            }
        }
    }
    // rows that must not create anything: NOT rows of diseases that exist nowhere else, DECIPHER rows
    if let Some(t0) = f.terms.first() {
        for j in 0..3u64 {
            if ign(14, j) {
                rows.push(Row { key: 0xD0 + j, depth: 0, text: format!("DECIPHER:{}\tSome deletion syndrome\t\t{}\tDECIPHER:1\tIEA\t\t\t\tP\tHPO:x[2013-05-29]", 10 + j, hp(t0.id)) });
                *out.injected.entry("DECIPHER-row").or_default() += 1;
            }
            if ign(15, j) {
                rows.push(Row { key: 0xE0 + j, depth: 0, text: format!("OMIM:{}\tOnly negated disease\tNOT\t{}\tPMID:1\tPCS\t\t\t\tP\tHPO:x[2018-10-03]", 4_100_000_000u64 + j, hp(t0.id)) });
                *out.injected.entry("NOT-row").or_default() += 1;
            }
            if ign(16, j) {
                rows.push(Row { key: 0xF0 + j, depth: 0, text: format!("ORPHA:{}\tOnly negated orpha\tNOT\t{}\tPMID:1\tPCS\t\t\t\tP\tHPO:x[2018-10-03]", 4_100_000_100u64 + j, hp(t0.id)) });
                *out.injected.entry("NOT-row").or_default() += 1;
            }
            if ign(17, j) {
                rows.push(Row { key: 0xC0 + j, depth: 0, text: "#a comment line in the middle of the file".to_string() });
                *out.injected.entry("comment-line").or_default() += 1;
            }
        }
    }
    let rows = arrange_rows(rows, spec.disease_rows, spec.dup, &mut out.dup_rows);
    let mut s = String::new();
    if mix2(spec.ign_seed, 78) % 4 != 0 {
        s.push_str("#description: \"HPO annotations for rare diseases [8120: OMIM; 47: DECIPHER; 4264 ORPHANET]\"\n#version: 2023-10-09\n#tracker: https://github.com/obophenotype/human-phenotype-ontology/issues\n#hpo-version: http://purl.obolibrary.org/obo/hp/releases/2023-10-09/hp.json\n");
        s.push_str("database_id\tdisease_name\tqualifier\thpo_id\treference\tevidence\tonset\tfrequency\tsex\tmodifier\taspect\tbiocuration\n");
        *out.injected.entry("comment-line").or_default() += 4;
    }
    for r in rows {
        s.push_str(&r.text);
        s.push('\n');
    }
    out.hpoa = s;
    // a file whose last line is not terminated (truncating editors, `printf` pipelines): still the same lines
    if spec.ign_permille > 0 {
        for (salt, file) in [(80u64, &mut out.obo), (81, &mut out.genes), (82, &mut out.hpoa)] {
            if mix2(spec.ign_seed, salt) % 4 == 0 && file.ends_with('\n') && !file.ends_with("\n\n") {
                file.pop();
                *out.injected.entry("no-final-newline").or_default() += 1;
            }
        }
    }
    out
}

fn arrange_rows<R: Clone>(rows: Vec<R>, order: Order, dup: Dup, dups: &mut u64) -> Vec<R>
where
    R: RowLike,
{
    use crate::channel::Mode;
    let mut v: Vec<(u64, u64, usize)> = rows
        .iter()
        .enumerate()
        .map(|(i, r)| {
            let k = match order.mode {
                Mode::AsGen => i as u64,
                Mode::Rev => u64::MAX - i as u64,
                Mode::IdAsc => r.key(),
                Mode::IdDesc => u64::MAX - r.key(),
                Mode::Topo => r.depth(),
                Mode::AntiTopo => u64::MAX - r.depth(),
                Mode::Random => mix2(order.seed, r.key()),
            };
            (k, mix2(order.seed ^ 0x77, r.key()), i)
        })
        .collect();
    v.sort();
    let mut out: Vec<R> = v.into_iter().map(|(_, _, i)| rows[i].clone()).collect();
    if dup.permille > 0 {
        let base = out.clone();
        for r in &base {
            for j in 0..dup.hits(r.key()) {
                let pos = (mix2(dup.seed ^ (0x1234 + u64::from(j)), r.key()) % (out.len() as u64 + 1)) as usize;
                out.insert(pos, r.clone());
                *dups += 1;
            }
        }
    }
    out
}

trait RowLike {
    fn key(&self) -> u64;
    fn depth(&self) -> u64;
}

#[derive(Clone)]
struct Row {
    key: u64,
    depth: u64,
    text: String,
}

impl RowLike for Row {
    fn key(&self) -> u64 {
        self.key
    }
    fn depth(&self) -> u64 {
        self.depth
    }
}

/// Write the three files into `dir` (created if needed)
pub fn write_files(dir: &std::path::Path, t: &TextFiles, transitive: bool) -> std::io::Result<()> {
    std::fs::create_dir_all(dir)?;
    std::fs::write(dir.join("hp.obo"), &t.obo)?;
    std::fs::write(dir.join(if transitive { "phenotype_to_genes.txt" } else { "genes_to_phenotype.txt" }), &t.genes)?;
    std::fs::write(dir.join("phenotype.hpoa"), &t.hpoa)?;
    Ok(())
}

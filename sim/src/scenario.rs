//! The explicit, serialisable scenario (what a replay file contains) and common result types.

use crate::facts::FactSet;
use crate::replica::ReplicaSpec;
use serde::{Deserialize, Serialize};

#[derive(Clone, Debug, PartialEq, Eq, Serialize, Deserialize)]
pub struct SubSpec {
    /// index into `replicas` of the source ontology
    pub source: usize,
    pub root: u32,
    /// leaves in the order (and multiplicity) they are supplied
    pub leaves: Vec<u32>,
    pub hash: (u8, u64),
}

/// One Builder call (C15 histories). Ids may be absent from the term set.
#[derive(Clone, Debug, PartialEq, Eq, Serialize, Deserialize)]
pub enum Op {
    NewTerm { id: u32, name: String },
    AddParent { parent: u32, child: u32 },
    AddRec { kind: crate::facts::Kind, id: u32, name: String },
    Annotate { kind: crate::facts::Kind, id: u32, name: String, term: u32 },
    SetVersion { v: (u16, u8, u8) },
}

/// One injected alteration between replica A and replica B (C18)
#[derive(Clone, Debug, PartialEq, Eq, Serialize, Deserialize)]
pub enum Edit {
    RenameTerm { id: u32, name: String },
    FlipObsolete { id: u32 },
    SetReplacement { id: u32, to: Option<u32> },
    AddParent { child: u32, parent: u32 },
    RemoveParent { child: u32, parent: u32 },
    AddTerm { id: u32, name: String, parent: Option<u32> },
    RemoveTerm { id: u32 },
    RenameRec { kind: crate::facts::Kind, id: u32, name: String },
    AddAnn { kind: crate::facts::Kind, id: u32, term: u32 },
    RemoveAnn { kind: crate::facts::Kind, id: u32, term: u32 },
    AddRec { kind: crate::facts::Kind, id: u32, name: String, terms: Vec<u32> },
    RemoveRec { kind: crate::facts::Kind, id: u32 },
}

#[derive(Clone, Debug, PartialEq, Eq, Serialize, Deserialize)]
pub struct DiskSpec {
    /// 1 = create+write chunks(+fsync)+close, 2 = temp+fsync+rename, 3 = overwrite in place without truncation
    pub writer: u8,
    pub chunk: usize,
    pub fsync: bool,
    pub block: usize,
    /// crash after this many writer syscalls (None = no crash)
    pub crash_at: Option<usize>,
    /// bits deciding which dirty blocks / metadata became durable
    pub durable_bits: u64,
    /// W3 / stale tail: the previous file content comes from this replica index (None = no previous file)
    pub old_from: Option<usize>,
}

#[derive(Clone, Debug, Default, Serialize, Deserialize)]
pub struct Scenario {
    pub prop: String,
    pub seed: u64,
    pub run: u64,
    /// sub-mode of the property's check (e.g. "layout", "truncate")
    #[serde(default)]
    pub mode: String,
    pub facts: FactSet,
    #[serde(default)]
    pub replicas: Vec<ReplicaSpec>,
    #[serde(default)]
    pub sub: Option<SubSpec>,
    #[serde(default)]
    pub ops: Vec<Op>,
    #[serde(default)]
    pub edits: Vec<Edit>,
    #[serde(default)]
    pub disk: Option<DiskSpec>,
    /// fault: these term facts are lost in transit (their dependants are still delivered or removed, per property)
    #[serde(default)]
    pub drop_terms: Vec<u32>,
    #[serde(default)]
    pub aux_seed: u64,
    /// explicit byte-level fault for C08: (kind, argument)
    #[serde(default)]
    pub byte_fault: Option<(String, u64)>,
}

#[derive(Clone, Debug, Serialize, Deserialize)]
pub struct Violation {
    pub prop: String,
    pub class: String,
    pub detail: String,
}

#[derive(Clone, Debug, Default)]
pub struct Outcome {
    pub violations: Vec<Violation>,
    /// things noticed that belong to another property's lens
    pub collateral: Vec<String>,
    /// digest of everything observable in the run (determinism proof)
    pub digest: u64,
    /// did the run fire a fault / use a non-canonical schedule and build >= 2 ontologies?
    pub nontrivial: bool,
    pub fingerprint: u64,
    pub ontologies: u64,
}

impl Outcome {
    pub fn violate(&mut self, prop: &str, class: impl Into<String>, detail: impl Into<String>) {
        if self.violations.len() < 8 {
            self.violations.push(Violation { prop: prop.to_string(), class: class.into(), detail: detail.into() });
        }
    }
    pub fn mixin(&mut self, x: u64) {
        self.digest = crate::prng::mix2(self.digest, x);
    }
}

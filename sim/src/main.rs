mod binenc;
mod channel;
mod disk;
mod facts;
mod known;
mod minimise;
mod model;
mod obs;
mod orchestrate;
mod prng;
mod props;
mod replica;
mod scenario;
mod text;

use orchestrate::{make_replay, spawn_workers, Plan, ReplayFile};
use std::time::Instant;

const DEFAULT_SEED: u64 = 20_260_926;

fn usage() -> ! {
    eprintln!("usage: hposim check <PROP> [quick|thorough] [--seed N] [--runs N] [--workers W]\n       hposim replay <file>\n       hposim determinism [PROP ...]\n       hposim show <PROP> <seed> <run>\n       hposim selftest");
    std::process::exit(2);
}

fn arg_val(args: &[String], name: &str) -> Option<String> {
    args.iter().position(|a| a == name).and_then(|i| args.get(i + 1).cloned())
}

fn main() {
    let args: Vec<String> = std::env::args().skip(1).collect();
    if args.is_empty() {
        usage();
    }
    match args[0].as_str() {
        "worker" => {
            // worker <prop> <seed> <k> <W> <runs> <tier> <digests>
            let plan = Plan {
                prop: args[1].clone(),
                seed: args[2].parse().unwrap(),
                workers: args[4].parse().unwrap(),
                runs: args[5].parse().unwrap(),
                thorough: args[6] == "thorough",
                digests: args.get(7).map_or(false, |d| d == "digests"),
            };
            let k: u64 = args[3].parse().unwrap();
            let rep = orchestrate::worker(&plan, k);
            println!("{}", serde_json::to_string(&rep).unwrap());
        }
        "check" => {
            if args.len() < 2 {
                usage();
            }
            std::panic::set_hook(Box::new(|_| {}));
            std::process::exit(check(&args[1..]));
        }
        "replay" => {
            if args.len() < 2 {
                usage();
            }
            std::process::exit(replay(&args[1]));
        }
        "determinism" => {
            let props: Vec<String> = if args.len() > 1 { args[1..].to_vec() } else { props::CLAIMED.iter().map(|s| s.to_string()).collect() };
            std::process::exit(determinism(&props, 2000));
        }
        "selftest" => {
            let props: Vec<String> = props::CLAIMED.iter().map(|s| s.to_string()).collect();
            std::process::exit(determinism(&props, 300));
        }
        "one" => {
            std::panic::set_hook(Box::new(|_| {}));
            let thorough = args.get(4).map_or(false, |t| t == "thorough");
            let s = props::generate(&args[1], args[2].parse().unwrap(), args[3].parse().unwrap(), thorough);
            let mut ctx = replica::Ctx::new(true);
            let out = props::execute(&mut ctx, &s);
            for e in ctx.trace.as_ref().unwrap().iter().take(100) {
                println!("  event: {e}");
            }
            for v in &out.violations {
                println!("violation {}: {}", v.class, v.detail);
            }
            for c in &out.collateral {
                println!("collateral: {c}");
            }
            println!("digest {:016x} ontologies {} nontrivial {}", out.digest, out.ontologies, out.nontrivial);
            ctx.cleanup();
        }
        "realfiles" => {
            for big in [false, true] {
                for f in facts::real_files(big) {
                    let t = std::time::Instant::now();
                    let o = hpo::Ontology::from_bytes(&f.bytes).map(|o| obs::observe(&o));
                    let t1 = t.elapsed();
                    let m = model::obs_of(&f.facts, true);
                    let t2 = t.elapsed();
                    let d = o.as_ref().map(|o| obs::diff(&m, o, obs::IcCmp::Ulp).len());
                    println!("{} v{} {} bytes: {} terms {} links {} genes {} omim {} orpha; load+observe {:?}, model {:?}, diffs {:?}", f.name, f.version, f.bytes.len(), f.facts.terms.len(), f.facts.isa.len(), f.facts.genes.len(), f.facts.omim.len(), f.facts.orpha.len(), t1, t2 - t1, d);
                }
            }
        }
        "show" => {
            let s = props::generate(&args[1], args[2].parse().unwrap(), args[3].parse().unwrap(), args.get(4).map_or(false, |t| t == "thorough"));
            println!("{}", serde_json::to_string_pretty(&s).unwrap());
        }
        _ => usage(),
    }
}

fn tier_of(args: &[String]) -> bool {
    if args.iter().any(|a| a == "thorough") {
        return true;
    }
    if args.iter().any(|a| a == "quick") {
        return false;
    }
    std::env::var("VERIF_TIER").map_or(false, |t| t == "thorough")
}

fn seed_of(args: &[String]) -> u64 {
    arg_val(args, "--seed").and_then(|s| s.parse().ok()).or_else(|| std::env::var("VERIF_SEED").ok().and_then(|s| s.trim().parse::<i128>().ok()).map(|v| v as u64)).unwrap_or(DEFAULT_SEED)
}

fn check(args: &[String]) -> i32 {
    let prop = args[0].clone();
    if !props::CLAIMED.contains(&prop.as_str()) {
        eprintln!("{prop} is not a claimed property");
        return 2;
    }
    let thorough = tier_of(args);
    let seed = seed_of(args);
    let workers: u64 = arg_val(args, "--workers").and_then(|s| s.parse().ok()).unwrap_or_else(|| std::thread::available_parallelism().map_or(8, |n| n.get() as u64).min(16));
    let runs: u64 = arg_val(args, "--runs").and_then(|s| s.parse().ok()).unwrap_or_else(|| props::budget(&prop, thorough));
    let t0 = Instant::now();
    println!("hposim check property={prop} tier={} VERIF_SEED={seed} runs={runs} workers={workers}", if thorough { "thorough" } else { "quick" });
    let plan = Plan { prop: prop.clone(), seed, runs, workers, thorough, digests: false };
    let merged = spawn_workers(&plan);
    let rep = &merged.rep;
    let mut exit = 0;
    let mut reported = 0i64;
    let mut known_lines: Vec<String> = vec![];
    let mut replay_paths: Vec<String> = vec![];
    if let Some(run) = rep.hang {
        let s = props::generate(&prop, seed, run, thorough);
        let rf = ReplayFile { property: prop.clone(), class: "hang".into(), detail: format!("no progress within {} s", orchestrate::HANG_LIMIT_S), seed, run, unminimised_size: s.facts.size(), minimised_size: s.facts.size(), minimiser_executions: 0, trace: vec![], scenario: s, history: vec![], thorough };
        let _ = std::fs::create_dir_all(format!("{}/replays", orchestrate::out_dir()));
        let path = format!("{}/replays/{prop}-{seed}-{run}-hang.json", orchestrate::out_dir());
        let _ = std::fs::write(&path, serde_json::to_string_pretty(&rf).unwrap());
        let mut rf = rf;
        orchestrate::ensure_reproducible(&path, &mut rf, workers);
        println!("VIOLATION property={prop} replay={path}");
        println!("  class=hang run={run} {}", rf.detail);
        exit = 1;
        reported += 1;
    }
    for (run, what) in &rep.aborted {
        let s = props::generate(&prop, seed, *run, thorough);
        let rf = ReplayFile { property: prop.clone(), class: "process-abort".into(), detail: what.clone(), seed, run: *run, unminimised_size: s.facts.size(), minimised_size: s.facts.size(), minimiser_executions: 0, trace: vec![], scenario: s, history: vec![], thorough };
        let _ = std::fs::create_dir_all(format!("{}/replays", orchestrate::out_dir()));
        let path = format!("{}/replays/{prop}-{seed}-{run}-process-abort.json", orchestrate::out_dir());
        let _ = std::fs::write(&path, serde_json::to_string_pretty(&rf).unwrap());
        let mut rf = rf;
        orchestrate::ensure_reproducible(&path, &mut rf, workers);
        println!("VIOLATION property={prop} replay={path}");
        println!("  class=process-abort run={run} (not minimised: the failure kills the process) {}", rf.detail);
        exit = 1;
        reported += 1;
    }
    let kf = known::load();
    for found in rep.violations.iter().take(10) {
        match make_replay(&prop, seed, found, thorough, workers) {
            Some((path, rf)) => {
                if let Some(k) = known::matching(&kf, &rf) {
                    known_lines.push(format!("KNOWN-FINDING: property={prop} {}", k.text));
                    let _ = std::fs::remove_file(&path);
                } else {
                    println!("VIOLATION property={prop} replay={path}");
                    println!("  class={} run={} minimised {} -> {} facts+steps in {} executions", rf.class, rf.run, rf.unminimised_size, rf.minimised_size, rf.minimiser_executions);
                    println!("  {}", rf.detail);
                    replay_paths.push(path);
                    exit = 1;
                    reported += 1;
                }
            }
            None => {
                println!("VIOLATION property={prop} replay=/verif/replays/unavailable");
                println!("  class={} run={} (replay could not be written) {}", found.class, found.run, found.detail);
                exit = 1;
                reported += 1;
            }
        }
    }
    known_lines.sort();
    known_lines.dedup();
    for l in &known_lines {
        println!("{l}");
    }
    if !merged.harness_errors.is_empty() {
        for e in &merged.harness_errors {
            eprintln!("HARNESS-ERROR: {e}");
            println!("HARNESS-ERROR: {e}");
        }
        if exit == 0 {
            exit = 2;
        }
    }
    let wall = t0.elapsed().as_secs_f64();
    write_evidence(&prop, thorough, seed, &plan, rep, reported, wall, &known_lines, &replay_paths);
    println!(
        "done: {} runs, {} ontologies built, {} distinct schedule fingerprints ({} non-trivial), {} distinct run digests, {:.1} s, {} violation(s), {} known finding(s)",
        rep.runs,
        rep.ontologies,
        rep.fingerprints.len(),
        rep.nontrivial_fingerprints.len(),
        rep.obs_digests.len(),
        wall,
        reported,
        known_lines.len()
    );
    for c in rep.collateral.iter().take(5) {
        println!("  note (other property's lens): {c}");
    }
    exit
}

fn write_evidence(prop: &str, thorough: bool, seed: u64, plan: &Plan, rep: &orchestrate::WorkerReport, violations: i64, wall: f64, known: &[String], replays: &[String]) {
    let faults = orchestrate::counters_by_prefix(&rep.counters, "fault.");
    let probes = orchestrate::counters_by_prefix(&rep.counters, "probe.");
    let steps = rep.counters.c.get("steps").copied().unwrap_or(0);
    let other: std::collections::BTreeMap<String, u64> = rep.counters.c.iter().filter(|(k, _)| !k.starts_with("fault.") && !k.starts_with("probe.") && *k != "steps").map(|(k, v)| (k.clone(), *v)).collect();
    let level = props::level(prop);
    let mut coverage = serde_json::json!({
        "evaluations": rep.runs,
        "distinct_nontrivial": rep.nontrivial_fingerprints.len(),
        "rule": props::rule(prop),
        "samples": rep.samples,
        "simulated_runs": rep.runs,
        "runs_per_hour": if wall > 0.0 { (rep.runs as f64 / wall * 3600.0) as u64 } else { 0 },
        "nontrivial_runs": rep.nontrivial,
        "ontologies_constructed_by_real_code": rep.ontologies,
        "distinct_schedule_fingerprints": rep.fingerprints.len(),
        "distinct_run_digests": rep.obs_digests.len(),
        "logical_steps": steps,
        "simulated_time": "none: the library has no clock, timer or deadline; progress is counted in logical steps (delivered facts, library calls, disk operations)",
        "faults_fired": faults,
        "probes": probes,
        "library_calls_and_seams": other,
        "workers": plan.workers,
        "real_vs_stub": {
            "real": ["hpo::builder::Builder (all typestates)", "Ontology::from_bytes / from_binary / as_bytes", "Ontology::from_standard / from_standard_transitive", "Ontology::sub_ontology", "Ontology::compare", "the whole read API (Obs walk)", "real file syscalls on materialised images and rendered text files"],
            "hooked": ["std RandomState of every HashMap/HashSet inside hpo -> simulator-seeded hasher (cargo feature verif)"],
            "stub_or_model": ["fact publishers and delivery channel", "writer programs W1-W3 and SimDisk page-cache model", "independent v1/v2/v3 encoders and v3 decoder", "JAX text renderers", "reference model M(F)"]
        },
        "combined_digest": format!("{:016x}", rep.combined_digest),
        "known_findings_reported": known,
        "replay_files": replays,
        "collateral_notes_for_other_properties": rep.collateral,
    });
    if let Some(extra) = props::extra_coverage(prop, rep) {
        for (k, v) in extra.as_object().unwrap() {
            coverage[k] = v.clone();
        }
    }
    let ev = serde_json::json!({
        "property_id": prop,
        "tier": if thorough { "thorough" } else { "quick" },
        "seed": seed as i64,
        "level": level,
        "coverage": coverage,
        "assumptions": props::assumptions(prop),
        "wall_s": wall,
        "violations": violations,
    });
    let _ = std::fs::create_dir_all(format!("{}/evidence", orchestrate::out_dir()));
    let _ = std::fs::write(format!("{}/evidence/{prop}.json", orchestrate::out_dir()), serde_json::to_string_pretty(&ev).unwrap());
}

fn replay(path: &str) -> i32 {
    std::panic::set_hook(Box::new(|_| {}));
    let text = match std::fs::read_to_string(path) {
        Ok(t) => t,
        Err(e) => {
            eprintln!("cannot read {path}: {e}");
            return 2;
        }
    };
    let rf: ReplayFile = match serde_json::from_str(&text) {
        Ok(r) => r,
        Err(e) => {
            eprintln!("cannot parse {path}: {e}");
            return 2;
        }
    };
    if (rf.class == "process-abort" || rf.class == "hang") && std::env::var("HPOSIM_REPLAY_CHILD").is_err() {
        // these failures take the process down (or never return): replay in a child process and watch it
        let exe = std::env::current_exe().expect("own path");
        let mut child = std::process::Command::new(exe).arg("replay").arg(path).env("HPOSIM_REPLAY_CHILD", "1").stdout(std::process::Stdio::null()).stderr(std::process::Stdio::null()).spawn().expect("spawn");
        let t0 = Instant::now();
        loop {
            match child.try_wait() {
                Ok(Some(st)) => {
                    use std::os::unix::process::ExitStatusExt;
                    if let Some(sig) = st.signal() {
                        println!("VIOLATION property={} replay={path}", rf.property);
                        println!("  class=process-abort: the replaying process died with signal {sig}");
                        return 1;
                    }
                    println!("not reproduced: the recorded {} does not occur on this tree (child exit {:?})", rf.class, st.code());
                    return 0;
                }
                Ok(None) => {
                    if t0.elapsed().as_secs() > orchestrate::hang_limit_s() {
                        let _ = child.kill();
                        println!("VIOLATION property={} replay={path}", rf.property);
                        println!("  class=hang: no progress within {} s", orchestrate::hang_limit_s());
                        return 1;
                    }
                    std::thread::sleep(std::time::Duration::from_millis(50));
                }
                Err(_) => return 2,
            }
        }
    }
    if !rf.history.is_empty() {
        // the recorded violation depends on what the process executed before: repeat those runs first
        let mut hctx = replica::Ctx::new(false);
        for run in &rf.history {
            let s = props::generate(&rf.property, rf.seed, *run, rf.thorough);
            let _ = obs::guarded(|| props::execute(&mut hctx, &s));
        }
        println!("replayed {} earlier run(s) of the same process first: {:?}", rf.history.len(), &rf.history[..rf.history.len().min(12)]);
    }
    let mut ctx = replica::Ctx::new(true);
    let out = match obs::guarded(|| props::execute(&mut ctx, &rf.scenario)) {
        Ok(o) => o,
        Err(p) => {
            eprintln!("harness panic during replay: {p}");
            return 2;
        }
    };
    println!("replay of {} (seed {} run {}), digest {:016x}", rf.property, rf.seed, rf.run, out.digest);
    for e in ctx.trace.as_ref().unwrap().iter().take(200) {
        println!("  event: {e}");
    }
    ctx.cleanup();
    let same = out.violations.iter().find(|v| v.class == rf.class);
    match same {
        Some(v) => {
            println!("VIOLATION property={} replay={path}", rf.property);
            println!("  class={}", v.class);
            println!("  {}", v.detail);
            1
        }
        None => {
            if let Some(v) = out.violations.first() {
                println!("VIOLATION property={} replay={path}", rf.property);
                println!("  class={} (recorded class was {})", v.class, rf.class);
                println!("  {}", v.detail);
                1
            } else {
                println!("not reproduced: the recorded violation ({}) does not occur on this tree", rf.class);
                0
            }
        }
    }
}

/// Each run seed executed twice per worker configuration W in {1, 4, 16}; per-run digests must agree everywhere.
fn determinism(props: &[String], runs: u64) -> i32 {
    let seed = seed_of(&[]);
    let mut bad = 0;
    for p in props {
        let mut base: Option<Vec<(u64, u64)>> = None;
        for (w, rep_i) in [(1u64, 0), (4, 0), (16, 0), (16, 1)] {
            // a C08 run enumerates every offset of a file (~0.2 s): fewer of them
            let runs = if p == "C08" { (runs / 8).max(40) } else { runs };
            let plan = Plan { prop: p.clone(), seed, runs, workers: w, thorough: false, digests: true };
            let m = spawn_workers(&plan);
            if !m.harness_errors.is_empty() {
                println!("determinism {p}: harness errors {:?}", m.harness_errors);
                bad += 1;
            }
            match &base {
                None => base = Some(m.rep.per_run.clone()),
                Some(b) => {
                    let diffs = b.iter().zip(m.rep.per_run.iter()).filter(|(x, y)| x != y).count() + b.len().abs_diff(m.rep.per_run.len());
                    if diffs > 0 {
                        println!("determinism {p}: {diffs} of {} runs differ at workers={w} repetition={rep_i}", b.len());
                        bad += 1;
                    }
                }
            }
        }
        println!("determinism {p}: {} run seeds x 4 executions (workers 1, 4, 16, 16) {}", runs, if bad == 0 { "identical" } else { "DIFFER" });
    }
    if bad == 0 {
        0
    } else {
        2
    }
}

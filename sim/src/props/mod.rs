pub mod c07;
pub mod c08;
pub mod c10;
pub mod c14;
pub mod c15;
pub mod c18;
pub mod common;

use crate::prng::{mix2, tag, Prng};
use crate::replica::Ctx;
use crate::scenario::{Outcome, Scenario};

pub const CLAIMED: [&str; 12] = ["C01", "C02", "C03", "C07", "C08", "C09", "C10", "C14", "C15", "C16", "C18", "C19"];

pub fn run_seed(seed: u64, prop: &str, run: u64) -> u64 {
    mix2(mix2(seed, tag(prop)), run)
}

/// Generate the scenario of run `run` — a pure function of (seed, prop, run, tier)
pub fn generate(prop: &str, seed: u64, run: u64, thorough: bool) -> Scenario {
    let mut r = Prng::new(run_seed(seed, prop, run));
    match prop {
        "C01" | "C02" | "C03" | "C09" | "C10" | "C16" | "C19" => common::gen_replicas(prop, &mut r, seed, run, thorough),
        "C07" => c07::generate(&mut r, seed, run),
        "C08" => c08::generate(&mut r, seed, run, thorough),
        "C14" => c14::generate(&mut r, seed, run),
        "C15" => c15::generate(&mut r, seed, run),
        "C18" => c18::generate(&mut r, seed, run),
        _ => panic!("no generator for {prop}"),
    }
}

pub fn execute(ctx: &mut Ctx, s: &Scenario) -> Outcome {
    match s.prop.as_str() {
        "C01" | "C02" | "C03" | "C09" | "C10" | "C16" | "C19" => common::exec_replicas(ctx, s),
        "C07" => c07::execute(ctx, s),
        "C08" => c08::execute(ctx, s),
        "C14" => c14::execute(ctx, s),
        "C15" => c15::execute(ctx, s),
        "C18" => c18::execute(ctx, s),
        p => panic!("no executor for {p}"),
    }
}

pub fn budget(prop: &str, thorough: bool) -> u64 {
    match (prop, thorough) {
        ("C08", false) => 480,
        ("C08", true) => 30_000,
        ("C10", true) => 600_000,
        (_, false) => 24_000,
        (_, true) => 1_200_000,
    }
}

pub fn level(prop: &str) -> &'static str {
    if prop == "C08" {
        "fault_enumeration"
    } else {
        "exploration"
    }
}

pub fn rule(prop: &str) -> String {
    let common = "One run = one seeded scenario: a generated fact set (DAG shape, id assignment, names, annotations drawn swarm-style), 2-6 replicas built by real library code over independently drawn construction paths, delivery orders (as generated / reversed / id asc / id desc / topological / anti-topological / keyed random), duplicate deliveries and hash-iteration schedules, each compared with the reference model. distinct = distinct schedule fingerprint (paths, order modes per phase, hash mode, duplication on/off, via-file, fact-set size bucket, sub-ontology request shape, dropped facts); non-trivial = the run built >= 2 ontologies and at least one replica used a non-canonical order, duplication or a non-identity hash schedule.";
    format!("{prop}: {common}")
}

pub fn assumptions(_prop: &str) -> Vec<String> {
    vec![
        "sampling, not proof: a clean batch is evidence only for the schedules, fault sequences and fact sets drawn".into(),
        "the reference model M(F) (closure, inheritance, IC, defaults) is correct; it shares no code with the library".into(),
        "generator exclusions: acyclic graphs, no id 0 and no id >= 10^7 added, one name per id, one replacement per term, well-formed text files".into(),
        "the verif feature only replaces the hasher of the library's maps and sets; everything else is the shipped code".into(),
    ]
}

pub fn extra_coverage(prop: &str, rep: &crate::orchestrate::WorkerReport) -> Option<serde_json::Value> {
    let c = |k: &str| rep.counters.c.get(k).copied().unwrap_or(0);
    match prop {
        "C08" => Some(serde_json::json!({
            "exhaustive": false,
            "enumerated_per_file": {
                "what": "for every file of the `truncate` mode: every truncation offset 0..len-1, the whole suffix family, all 254 unsupported version bytes; for every file of the `disk` mode: a crash after every syscall index of the writer program",
                "files_with_all_offsets": c("enumerated.files_all_offsets"),
                "truncation_offsets": c("fault.truncation_offsets_enumerated"),
                "suffixes": c("fault.suffixes_appended"),
                "version_bytes": c("fault.version_bytes_enumerated"),
                "crash_points": c("fault.crash_points"),
            },
            "sampled": "file contents (fact sets, format version, record orders), writer program parameters and the durable-block choices at each crash point",
        })),
        _ => None,
    }
}


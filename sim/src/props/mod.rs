pub mod c07;
pub mod c08;
pub mod c10;
pub mod c14;
pub mod c15;
pub mod c18;
pub mod common;

use crate::prng::{mix2, tag, Prng};
use crate::replica::Ctx;
use crate::scenario::{Outcome, Scenario};

pub const CLAIMED: [&str; 12] = ["C01", "C02", "C03", "C07", "C08", "C09", "C10", "C14", "C15", "C16", "C18", "C19"];

pub fn run_seed(seed: u64, prop: &str, run: u64) -> u64 {
    mix2(mix2(seed, tag(prop)), run)
}

/// Generate the scenario of run `run` — a pure function of (seed, prop, run, tier)
pub fn generate(prop: &str, seed: u64, run: u64, thorough: bool) -> Scenario {
    let mut r = Prng::new(run_seed(seed, prop, run));
    match prop {
        "C01" | "C02" | "C03" | "C09" | "C10" | "C16" | "C19" => common::gen_replicas(prop, &mut r, seed, run, thorough),
        "C07" => c07::generate(&mut r, seed, run),
        "C08" => c08::generate(&mut r, seed, run, thorough),
        "C14" => c14::generate(&mut r, seed, run),
        "C15" => c15::generate(&mut r, seed, run),
        "C18" => c18::generate(&mut r, seed, run),
        _ => panic!("no generator for {prop}"),
    }
}

pub fn execute(ctx: &mut Ctx, s: &Scenario) -> Outcome {
    match s.prop.as_str() {
        "C01" | "C02" | "C03" | "C09" | "C10" | "C16" | "C19" => common::exec_replicas(ctx, s),
        "C07" => c07::execute(ctx, s),
        "C08" => c08::execute(ctx, s),
        "C14" => c14::execute(ctx, s),
        "C15" => c15::execute(ctx, s),
        "C18" => c18::execute(ctx, s),
        p => panic!("no executor for {p}"),
    }
}

pub fn budget(prop: &str, thorough: bool) -> u64 {
    match (prop, thorough) {
        // quick budgets are sized to 10-20 s per check on 16 cores; the cheap scenarios get more runs
        ("C08", false) => 480,
        ("C08", true) => 30_000,
        ("C10", true) => 600_000,
        ("C15", false) => 96_000,
        ("C18", false) => 64_000,
        ("C07", false) => 48_000,
        ("C19", false) | ("C14", false) => 32_000,
        ("C15", true) | ("C18", true) | ("C07", true) => 2_400_000,
        (_, false) => 24_000,
        (_, true) => 1_200_000,
    }
}

pub fn level(prop: &str) -> &'static str {
    if prop == "C08" {
        "fault_enumeration"
    } else {
        "exploration"
    }
}

pub fn rule(prop: &str) -> String {
    let family = "One run = one seeded scenario: a generated fact set (DAG shape incl. chains, trees, diamond ladders, layered and wide graphs; id assignment decorrelated from graph order; names; annotations with colliding numeric ids across kinds; 1 in 300 runs uses the example ontology shipped with the repository), 2-6 replicas built by real library code over independently drawn construction paths (Builder, independent v1/v2/v3 encoders -> from_bytes/from_binary, as_bytes round trip, JAX text files, transitive text files), delivery orders per phase (as generated / reversed / id asc / id desc / topological / anti-topological / keyed random), duplicate deliveries and hash-iteration schedules (keyed PRF, identity, reversed, all-collide), each compared with the reference model; optionally a sub_ontology request on replica 0. distinct = distinct schedule fingerprint (sorted multiset of (path, order mode per phase, hash mode, duplication on/off, via-file), fact-set size bucket, sub-ontology request shape, dropped facts); non-trivial = the run built >= 2 ontologies and at least one replica used a non-canonical order, duplication or a non-identity hash schedule.";
    let own = match prop {
        "C07" => "One run = one source replica (any path; 1 in 12 a build_minimal / sub_ontology result that still has both roots) -> as_bytes under the source's hash schedule -> writer program W1 (create, write chunks, fsync, close) or W2 (temp file, fsync, rename) on the simulated disk, no crash or a crash right after the acknowledged sync -> image materialised as a real file -> from_binary, and from_bytes on the same bytes; 1 in 3 runs serialises and loads a second time. distinct = (source path label, hash mode, over-long names yes/no, non-default categories yes/no, writer, crash yes/no, fact-set size, which annotation sections are empty); non-trivial = source and at least one reload were built.",
        "C08" => "One run = one mode: `layout` (one fact set encoded by the independent v1, v2 and v3 encoders, twice each under drawn record orders and inner id orders, decoded by the library and compared with the model of what that version can carry; 1 in 160 with more than 65 535 term records), `truncate` (one file from an independent encoder or from as_bytes: EVERY truncation offset 0..len-1, 26 appended suffixes, all 254 unsupported version bytes), `disk` (writer W1 without/with fsync or W3 overwriting a previous, different valid file in place; a crash after EVERY syscall index; durable image computed block-wise from seeded bits; PREFIX/EXTENDED images must be rejected, FULL/OLD must decode to their model, TORN images are classified only), `realfile` (a binary file shipped with the repository against the independent decoder). distinct = (mode, path label, fact-set size, writer, chunk, block, fsync, previous file yes/no); every run is non-trivial.",
        "C14" => "One run = one source replica (any defaults-carrying path or Builder minimal) and one sub_ontology request (root biased to HP:1 / HP:118 / modifier roots / terms with many descendants; 1-5 leaves with duplicates, leaf == root, ancestors of other leaves, 1 in 8 a leaf outside root's subtree), executed under 2-3 schedules (hash schedule, leaf order and multiplicity); 1 in 3 accepted results is the source of a second-level request. distinct = (source path label, number of leaves, bad leaf yes/no, fact-set size, root class, hash mode); non-trivial = source and at least one result were built.",
        "C15" => "One run = one Builder history: new_term calls for the delivered term facts (0-2 term facts are dropped in transit), add_parent for every link of the ORIGINAL fact set plus calls on ids that never existed (also ids >= 10^7), add_* / annotate_* for every annotation of the original fact set plus annotations on absent terms (for records that exist nowhere else, and for existing ones), in drawn orders with duplicates; failing calls biased to come first or right after a valid call on the same parent/record. distinct = (number of ops, rejected calls, rejected annotate calls, hash mode, defaults, dropped facts); non-trivial = at least one call was rejected.",
        "C18" => "One run = replica A from F (path BinV3 / Text / Builder / BinLib) and replica B from F after 0-4 injected edits (rename incl. changes only beyond byte 255, obsolete flip, replacement set/cleared, parent added/removed, term added/removed with dependants, record renamed, annotation added/removed incl. extreme ids of records with > 30 terms, record added/removed), B over the same or another path. distinct = (sequence of edit kinds, the two paths, fact-set size); non-trivial = at least one edit.",
        _ => family,
    };
    format!("{prop}: {own}")
}

pub fn assumptions(_prop: &str) -> Vec<String> {
    vec![
        "sampling, not proof: a clean batch is evidence only for the schedules, fault sequences and fact sets drawn".into(),
        "the reference model M(F) (closure, inheritance, IC, defaults) is correct; it shares no code with the library".into(),
        "generator exclusions: acyclic graphs, no id 0 and no id >= 10^7 added, one name per id, one replacement per term, well-formed text files".into(),
        "the verif feature only replaces the hasher of the library's maps and sets; everything else is the shipped code".into(),
    ]
}

pub fn extra_coverage(prop: &str, rep: &crate::orchestrate::WorkerReport) -> Option<serde_json::Value> {
    let c = |k: &str| rep.counters.c.get(k).copied().unwrap_or(0);
    match prop {
        "C08" => Some(serde_json::json!({
            "exhaustive": false,
            "enumerated_per_file": {
                "what": "for every file of the `truncate` mode: every truncation offset 0..len-1, the whole suffix family, all 254 unsupported version bytes; for every file of the `disk` mode: a crash after every syscall index of the writer program",
                "files_with_all_offsets": c("enumerated.files_all_offsets"),
                "truncation_offsets": c("fault.truncation_offsets_enumerated"),
                "suffixes": c("fault.suffixes_appended"),
                "version_bytes": c("fault.version_bytes_enumerated"),
                "crash_points": c("fault.crash_points"),
            },
            "sampled": "file contents (fact sets, format version, record orders), writer program parameters and the durable-block choices at each crash point",
        })),
        _ => None,
    }
}


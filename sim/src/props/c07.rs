//! C07 — binary serialisation round-trips every ontology (the durability half):
//! replica A -> `as_bytes` under a hash schedule (decides record order) -> writer W1+fsync or W2 ->
//! SimDisk with no crash or a crash after the sync/rename -> materialise -> `from_binary` -> replica B.

use crate::disk::{self, ImageClass};
use crate::facts::{gen_facts, project_all, GenCfg};
use crate::model::defaults;
use crate::obs::{diff, digest, guarded, observe, IcCmp, Obs};
use crate::prng::{mix2, tag, Prng};
use crate::props::common::{class_of, run_sub};
use crate::replica::{build, load_bytes, set_hash, Built, Ctx, PathKind, ReplicaSpec};
use crate::scenario::{DiskSpec, Outcome, Scenario, SubSpec};
use hpo::annotations::AnnotationId;
use hpo::Ontology;
use std::collections::BTreeSet;

const P: &str = "C07";

pub fn generate(r: &mut Prng, seed: u64, run: u64) -> Scenario {
    let mut cfg = GenCfg::draw(r);
    cfg.std_roots = true;
    cfg.text_version = !r.chance(1, 3);
    if r.chance(1, 3) {
        cfg.names = 3;
    }
    if r.chance(1, 8) {
        cfg.id_space = 2;
    }
    // empty annotation sections
    for k in 0..3 {
        if r.chance(1, 6) {
            cfg.max_recs[k] = 0;
        }
    }
    let facts = gen_facts(r, &cfg);
    let mut path = *r.pick(&[PathKind::Builder, PathKind::BinV3, PathKind::Text, PathKind::BinV2, PathKind::BinV1, PathKind::BinLib, PathKind::Builder, PathKind::TextTransitive]);
    if !cfg.text_version && matches!(path, PathKind::Text | PathKind::TextTransitive) {
        path = PathKind::BinV3;
    }
    let mut facts = facts;
    let mut spec = ReplicaSpec::draw(r, path);
    if spec.uses_text() {
        facts.version = (facts.version.0 % 10_000, facts.version.1 % 100, facts.version.2 % 100);
    } else if r.chance(1, 3) {
        facts.pad_some_names(r);
    }
    if path == PathKind::Builder {
        // some deliveries name a record differently (first one wins): whatever the source then shows must round-trip
        spec.alt_names = mix2(spec.ann_order.seed, 0xA17A) % 3 == 0;
    }
    let mut sub = None;
    if r.chance(1, 12) {
        // the examples/subontology.rs workflow: a build_minimal / sub_ontology result that still has both roots
        if r.chance(1, 2) && path == PathKind::Builder {
            spec.defaults = false;
        } else {
            let anc = crate::model::closure(&facts);
            let below118: Vec<u32> = facts.terms.iter().map(|t| t.id).filter(|i| anc[i].contains(&118)).collect();
            let mut leaves = vec![118];
            for _ in 0..r.urange(0, 3) {
                if !below118.is_empty() {
                    leaves.push(*r.pick(&below118));
                }
            }
            r.shuffle(&mut leaves);
            sub = Some(SubSpec { source: 0, root: 1, leaves, hash: (r.below(4) as u8, r.next_u64()) });
        }
    }
    let writer = if r.chance(1, 2) { 1 } else { 2 };
    let mut d = DiskSpec { writer, chunk: *r.pick(&[7usize, 64, 512, 4096, 1 << 20]), fsync: true, block: *r.pick(&[16usize, 64, 512, 4096]), crash_at: None, durable_bits: r.next_u64(), old_from: None };
    if r.chance(1, 2) {
        // crash, but only after the data was acknowledged as durable
        d.crash_at = Some(usize::MAX - r.usize_below(2));
    }
    Scenario { prop: P.into(), seed, run, facts, replicas: vec![spec], sub, disk: Some(d), aux_seed: r.next_u64(), ..Default::default() }
}

/// Known-finding predicate: the source ontology's category sets differ from the defaults
/// computed from its own roots (build_minimal / sub_ontology results).
pub fn source_has_nondefault_categories(s: &Scenario) -> bool {
    let Some(spec) = s.replicas.first() else { return false };
    let minimal = s.sub.is_some() || !spec.has_defaults();
    if !minimal {
        return false;
    }
    let pf = project_all(&s.facts, &spec.projs());
    match defaults(&pf) {
        Some(d) => !d.categories.is_empty() || !d.modifier.is_empty(),
        None => false,
    }
}

fn name_ok(a: &str, b: &str) -> bool {
    if a.len() <= 255 {
        return a == b;
    }
    // the documented cut: the first 255 bytes, backed off to the previous character boundary
    b == crate::facts::cut255(a)
}

/// Replace over-long names in `a` by what `b` shows, if `b`'s value is an acceptable truncation
fn forgive_truncation(a: &Obs, b: &Obs) -> (Obs, BTreeSet<u32>, BTreeSet<u32>) {
    let mut a2 = a.clone();
    let mut tt = BTreeSet::new();
    let mut tg = BTreeSet::new();
    for t in &mut a2.terms {
        if t.name.len() > 255 {
            if let Some(y) = b.terms.iter().find(|y| y.id == t.id) {
                if name_ok(&t.name, &y.name) {
                    t.name = y.name.clone();
                    tt.insert(t.id);
                }
            }
        }
    }
    for g in &mut a2.genes {
        if g.name.len() > 255 {
            if let Some(y) = b.genes.iter().find(|y| y.id == g.id) {
                if name_ok(&g.name, &y.name) {
                    g.name = y.name.clone();
                    tg.insert(g.id);
                }
            }
        }
    }
    (a2, tt, tg)
}

pub fn execute(ctx: &mut Ctx, s: &Scenario) -> Outcome {
    let mut out = Outcome::default();
    let spec = &s.replicas[0];
    let Some(dspec) = &s.disk else { return out };
    let a0 = build(ctx, &s.facts, spec);
    out.mixin(tag(&a0.describe()));
    let Built::Ok(mut a) = a0 else {
        out.collateral.push(format!("source construction failed: {}", a0.describe()));
        return out;
    };
    out.ontologies += 1;
    if let Some(sub) = &s.sub {
        match run_sub(ctx, &a, sub) {
            Built::Ok(o) => {
                a = o;
                out.ontologies += 1;
            }
            other => {
                out.collateral.push(format!("sub_ontology for the source failed: {}", other.describe()));
                return out;
            }
        }
    }
    // the statement's precondition
    if a.hpo(1u32).is_none() || a.hpo(118u32).is_none() {
        return out;
    }
    let nondefault = source_has_nondefault_categories(s);
    if nondefault {
        ctx.counters.add("probe.source_with_non_default_categories", 1);
    }
    let obs_a = observe(&a);
    out.mixin(digest(&obs_a));
    let long_names = obs_a.terms.iter().any(|t| t.name.len() > 255) || obs_a.genes.iter().any(|g| g.name.len() > 255);
    if long_names {
        ctx.counters.add("probe.name_over_255_bytes", 1);
    }
    if obs_a.terms.iter().any(|t| t.name.len() > 255 && !t.name.is_char_boundary(255)) || obs_a.genes.iter().any(|g| g.name.len() > 255 && !g.name.is_char_boundary(255)) {
        ctx.counters.add("probe.multibyte_char_straddles_byte_255", 1);
    }
    ctx.counters.add("as_bytes_calls", 1);
    let bytes = match guarded(|| a.as_bytes()) {
        Ok(b) => b,
        Err(p) => {
            out.violate(P, "as_bytes-panicked", p);
            return out;
        }
    };
    out.mixin(tag(&format!("{}:{}", bytes.len(), tag(&String::from_utf8_lossy(&bytes)))));
    // writer -> simulated disk -> durable image
    let mut d = dspec.clone();
    let prog_len = disk::program(&d, bytes.len()).len();
    if let Some(k) = d.crash_at {
        // "after the sync / rename": usize::MAX = after the last syscall, MAX-1 = after the one acknowledging durability
        let ack = match d.writer {
            2 => prog_len,          // after rename
            _ => prog_len - 1,      // after fsync (before close)
        };
        d.crash_at = Some(if k == usize::MAX { prog_len } else { ack.max(1) });
        if d.writer == 2 && d.crash_at == Some(prog_len) {
            d.crash_at = None;
        }
    }
    let img = disk::run(&d, &bytes, None);
    ctx.step(img.syscalls_done as u64);
    ctx.counters.add(&format!("disk.writer_W{}", d.writer), 1);
    if d.crash_at.is_some() {
        ctx.counters.add("fault.crash_after_sync", 1);
    }
    for t in &img.trace {
        ctx.ev(|| format!("disk: {t}"));
    }
    if img.class != ImageClass::Full {
        out.collateral.push(format!("harness: acknowledged write produced a {:?} image", img.class));
        return out;
    }
    let image = img.bytes.unwrap();
    let hash_b = (spec.hash.0, s.aux_seed);
    for via_file in [true, false] {
        let what = if via_file { "from_binary(durable image)" } else { "from_bytes(as_bytes())" };
        set_hash(hash_b);
        let b = load_bytes(ctx, &image, via_file);
        out.mixin(tag(&b.describe()));
        let ob = match &b {
            Built::Ok(o) => o,
            Built::Err(e) => {
                out.violate(P, "loader-rejects-own-bytes", format!("{what}: {e} (source {}, {} bytes)", spec.label(), image.len()));
                continue;
            }
            Built::Panic(p) => {
                out.violate(P, "loader-panics-on-own-bytes", format!("{what}: {p} (source {}, {} bytes)", spec.label(), image.len()));
                continue;
            }
        };
        out.ontologies += 1;
        let obs_b = observe(ob);
        out.mixin(digest(&obs_b));
        let (a_forgiven, trunc_terms, trunc_genes) = forgive_truncation(&obs_a, &obs_b);
        ctx.counters.add("probe.names_truncated", (trunc_terms.len() + trunc_genes.len()) as u64);
        for dd in crate::obs::diff_opts(&a_forgiven, &obs_b, IcCmp::Bits, true) {
            let cat_field = matches!(dd.field.as_str(), "categories" | "modifier" | "term.is_modifier" | "term.categories");
            let class = if cat_field && nondefault { format!("obs-differs:{}[source-categories-not-default]", dd.field) } else { format!("obs-differs:{}", class_of(&dd)) };
            out.violate(P, class, format!("{what}: {} [{}] original {} reloaded {}", dd.field, dd.key, crate::obs::clip(&dd.a), crate::obs::clip(&dd.b)));
        }
        for (owner, msg) in &obs_b.anomalies {
            out.violate(P, format!("reloaded-anomaly:{owner}"), format!("{what}: {msg}"));
        }
        // compare() between original and reloaded: nothing, except changed_name for exactly the truncated ids
        check_compare(&mut out, what, &a, ob, &trunc_terms, &trunc_genes);
        // second generation: what was loaded serialises again (under another hash schedule, i.e. another record
        // order) and loads to the same observation — nothing is lost only on the second trip
        if via_file && s.aux_seed % 3 == 0 {
            set_hash((0, s.aux_seed ^ 0x2222));
            match guarded(|| ob.as_bytes()) {
                Ok(bytes2) => {
                    let c = load_bytes(ctx, &bytes2, false);
                    out.mixin(tag(&c.describe()));
                    match &c {
                        Built::Ok(oc) => {
                            out.ontologies += 1;
                            ctx.counters.add("probe.second_generation_round_trips", 1);
                            let obs_c = observe(oc);
                            for dd in crate::obs::diff_opts(&obs_b, &obs_c, IcCmp::Bits, true) {
                                out.violate(P, format!("second-generation-differs:{}", class_of(&dd)), format!("as_bytes(from_bytes(as_bytes(A))): {} [{}] first reload {} second reload {}", dd.field, dd.key, crate::obs::clip(&dd.a), crate::obs::clip(&dd.b)));
                            }
                        }
                        other => out.violate(P, "loader-rejects-own-bytes", format!("second generation: {}", other.describe())),
                    }
                }
                Err(p) => out.violate(P, "as_bytes-panicked", format!("second generation: {p}")),
            }
        }
    }
    out.nontrivial = out.ontologies >= 2;
    out.fingerprint = mix2(
        mix2(tag(P), tag(&spec.label())),
        u64::from(spec.hash.0) | (u64::from(long_names) << 4) | (u64::from(nondefault) << 5) | ((d.writer as u64) << 6) | (u64::from(d.crash_at.is_some()) << 8) | ((s.facts.terms.len().min(63) as u64) << 10) | (u64::from(s.facts.genes.is_empty()) << 16) | (u64::from(s.facts.omim.is_empty()) << 17) | (u64::from(s.facts.orpha.is_empty()) << 18),
    );
    out
}

fn check_compare(out: &mut Outcome, what: &str, a: &Ontology, b: &Ontology, trunc_terms: &BTreeSet<u32>, trunc_genes: &BTreeSet<u32>) {
    let r = guarded(|| {
        let c = a.compare(b);
        let mut probs: Vec<(String, String)> = vec![];
        let n = |k: &str, v: usize, probs: &mut Vec<(String, String)>| {
            if v != 0 {
                probs.push((k.to_string(), format!("{v} entries")));
            }
        };
        n("added_hpo_terms", c.added_hpo_terms().len(), &mut probs);
        n("removed_hpo_terms", c.removed_hpo_terms().len(), &mut probs);
        n("added_genes", c.added_genes().len(), &mut probs);
        n("removed_genes", c.removed_genes().len(), &mut probs);
        n("added_omim_diseases", c.added_omim_diseases().len(), &mut probs);
        n("removed_omim_diseases", c.removed_omim_diseases().len(), &mut probs);
        n("changed_omim_diseases", c.changed_omim_diseases().len(), &mut probs);
        n("added_orpha_diseases", c.added_orpha_diseases().len(), &mut probs);
        n("removed_orpha_diseases", c.removed_orpha_diseases().len(), &mut probs);
        n("changed_orpha_diseases", c.changed_orpha_diseases().len(), &mut probs);
        let mut seen_t = BTreeSet::new();
        for d in c.changed_hpo_terms() {
            let id = d.id().as_u32();
            seen_t.insert(id);
            let only_name = d.changed_name().is_some() && d.added_parents().is_none() && d.removed_parents().is_none() && d.changed_obsolete().is_none() && d.changed_replacement().is_none();
            if !(trunc_terms.contains(&id) && only_name) {
                probs.push(("changed_hpo_terms".into(), format!("term {id} reported as changed")));
            }
        }
        for id in trunc_terms {
            if !seen_t.contains(id) {
                probs.push(("changed_hpo_terms".into(), format!("term {id} was truncated but is not reported")));
            }
        }
        let mut seen_g = BTreeSet::new();
        for d in c.changed_genes() {
            let id: u32 = d.id().rsplit(':').next().and_then(|x| x.parse().ok()).unwrap_or(0);
            seen_g.insert(id);
            let only_name = d.changed_name().is_some() && d.added_terms().is_none() && d.removed_terms().is_none();
            if !(trunc_genes.contains(&id) && only_name) {
                probs.push(("changed_genes".into(), format!("gene {id} reported as changed")));
            }
        }
        for id in trunc_genes {
            if !seen_g.contains(id) {
                probs.push(("changed_genes".into(), format!("gene {id} was truncated but is not reported")));
            }
        }
        probs
    });
    match r {
        Ok(probs) => {
            for (acc, msg) in probs {
                out.violate(P, format!("compare-nonempty({acc})"), format!("{what}: original.compare(reloaded).{acc}: {msg}"));
            }
        }
        Err(p) => out.violate(P, "compare-panicked", format!("{what}: {p}")),
    }
}

//! C10 — lookups are exact for every id and every name (narrow claim, see DESIGN §4).

use crate::facts::{FactSet, Kind};
use crate::prng::Prng;
use crate::replica::Ctx;
use crate::scenario::Outcome;
use hpo::annotations::{AnnotationId, Disease};
use hpo::Ontology;
use std::collections::{BTreeMap, BTreeSet};

const P: &str = "C10";

pub fn check_lookups(ctx: &mut Ctx, out: &mut Outcome, what: &str, o: &Ontology, f: &FactSet, r: &mut Prng, full_sweep: bool) {
    // any panic inside a lookup / iteration of a successfully built ontology is itself a violation of exactness
    if let Err(p) = crate::obs::guarded(|| check_lookups_inner(ctx, out, what, o, f, r, full_sweep)) {
        out.violate(P, "lookup-panics", format!("{what}: a lookup or iteration panicked: {p}"));
    }
}

fn check_lookups_inner(ctx: &mut Ctx, out: &mut Outcome, what: &str, o: &Ontology, f: &FactSet, r: &mut Prng, full_sweep: bool) {
    let names: BTreeMap<u32, &str> = f.terms.iter().map(|t| (t.id, t.name.as_str())).collect();
    let flags: BTreeMap<u32, (bool, Option<u32>)> = f.terms.iter().map(|t| (t.id, (t.obsolete, t.replacement))).collect();
    let mut probe: BTreeSet<u32> = BTreeSet::new();
    for &id in names.keys() {
        probe.insert(id);
        probe.insert(id.wrapping_add(1));
        probe.insert(id.wrapping_sub(1));
    }
    for b in [0u32, 1, 2, 117, 118, 119, 9_999_998, 9_999_999, 10_000_000, 10_000_001, 16_777_215, 16_777_216, u32::MAX - 1, u32::MAX] {
        probe.insert(b);
    }
    for k in 0..32 {
        probe.insert(1u32 << k);
        probe.insert((1u32 << k).wrapping_sub(1));
    }
    for _ in 0..200 {
        probe.insert(if r.chance(1, 2) { r.below(10_000_000) as u32 } else { r.next_u64() as u32 });
    }
    ctx.counters.add("lookup.term_probes", probe.len() as u64);
    for id in probe {
        let got = crate::obs::guarded(|| o.hpo(id).map(|t| (t.id().as_u32(), t.name().to_string(), t.is_obsolete(), t.replacement_id().map(|x| x.as_u32()))));
        match got {
            Err(p) => out.violate(P, "lookup-panics", format!("{what}: hpo({id}) panicked: {p}")),
            Ok(got) => match (names.get(&id), got) {
                (Some(n), Some((gid, gname, gobs, grepl))) => {
                    // "the data it was added with": name, obsolete flag and replacement id of the (projected) fact
                    let flags = flags.get(&id).copied().unwrap_or((false, None));
                    if (gobs, grepl) != flags {
                        out.violate(P, "wrong-payload", format!("{what}: hpo({id}) returned obsolete/replacement {gobs}/{grepl:?}, added as {}/{:?}", flags.0, flags.1));
                    }
                    if gid != id || gname != *n {
                        out.violate(P, "wrong-payload", format!("{what}: hpo({id}) returned term {gid} {gname:?}, added as {n:?}"));
                    }
                }
                (Some(_), None) => out.violate(P, "lookup-false-negative", format!("{what}: hpo({id}) is None but the term was added")),
                (None, Some((gid, gname, _, _))) => out.violate(P, "lookup-false-positive", format!("{what}: hpo({id}) returned term {gid} {gname:?} which was never added")),
                (None, None) => {}
            },
        }
    }
    // the same lookups through the textual key (`hpo(String)`, `HpoTermId::try_from(&str)`): zero-padded to seven digits,
    // and beyond the id space with eight to ten digits
    let mut text_keys: Vec<u32> = names.keys().copied().collect();
    for &id in names.keys() {
        for m in [10u64, 100, 1000] {
            // an absent id whose leading digits spell a present one
            let v = u64::from(id) * m + u64::from(id % 7);
            if v <= u64::from(u32::MAX) {
                text_keys.push(v as u32);
            }
        }
    }
    text_keys.extend([0u32, 9_999_999, 10_000_000, 10_000_001, 99_999_999, 100_000_000, u32::MAX]);
    ctx.counters.add("lookup.text_key_probes", text_keys.len() as u64);
    for id in text_keys {
        let key = format!("HP:{id:07}");
        let by_text = crate::obs::guarded(|| hpo::HpoTermId::try_from(key.as_str()).ok().and_then(|k| o.hpo(k)).map(|t| t.id().as_u32()));
        let by_string = crate::obs::guarded(|| o.hpo(key.clone()).map(|t| t.id().as_u32()));
        let want = names.contains_key(&id).then_some(id);
        for (how, got) in [("HpoTermId::try_from(&str)", by_text), ("hpo(String)", by_string)] {
            match got {
                Err(p) => out.violate(P, "lookup-panics", format!("{what}: lookup of {key:?} via {how} panicked: {p}")),
                Ok(g) if g != want => out.violate(P, "text-key-lookup", format!("{what}: lookup of {key:?} via {how} returned {g:?}, expected {want:?}")),
                _ => {}
            }
        }
    }
    if full_sweep {
        ctx.counters.add("lookup.full_sweeps", 1);
        let mut present = 0usize;
        for id in 0..10_000_000u32 {
            if o.hpo(id).is_some() {
                present += 1;
                if !names.contains_key(&id) {
                    out.violate(P, "lookup-false-positive", format!("{what}: full sweep: hpo({id}) is Some"));
                }
            }
        }
        if present != names.len() {
            out.violate(P, "lookup-false-negative", format!("{what}: full sweep found {present} terms, {} were added", names.len()));
        }
    }
    // iteration: every term exactly once, agreeing with len()
    let mut seen: BTreeSet<u32> = BTreeSet::new();
    let mut count = 0usize;
    for t in o.iter() {
        count += 1;
        if !seen.insert(t.id().as_u32()) {
            out.violate(P, "iter-duplicate", format!("{what}: iteration yields {} twice", t.id().as_u32()));
        }
    }
    if count != o.len() || count != names.len() {
        out.violate(P, "len", format!("{what}: iteration yields {count}, len() = {}, {} terms were added", o.len(), names.len()));
    }
    if seen != names.keys().copied().collect() {
        out.violate(P, "iter-missing", format!("{what}: iterated ids differ from the added ids"));
    }
    // record lookups by id
    for kind in [Kind::Gene, Kind::Omim, Kind::Orpha] {
        // which ids exist comes from the facts; the name a record carries is whatever iteration shows for that id
        // (deliveries may have named it differently, and no property says which name wins)
        let shown: BTreeMap<u32, String> = match kind {
            Kind::Gene => o.genes().map(|g| (g.id().as_u32(), g.name().to_string())).collect(),
            Kind::Omim => o.omim_diseases().map(|g| (g.id().as_u32(), g.name().to_string())).collect(),
            Kind::Orpha => o.orpha_diseases().map(|g| (g.id().as_u32(), g.name().to_string())).collect(),
        };
        let recs: BTreeMap<u32, &str> = f.recs(kind).iter().map(|x| (x.id, shown.get(&x.id).map_or(x.name.as_str(), |n| n.as_str()))).collect();
        let mut ids: BTreeSet<u32> = BTreeSet::new();
        for &id in recs.keys() {
            ids.insert(id);
            ids.insert(id.wrapping_add(1));
            ids.insert(id.wrapping_sub(1));
        }
        // ids of the *other* kinds must not leak
        for k2 in [Kind::Gene, Kind::Omim, Kind::Orpha] {
            for x in f.recs(k2) {
                ids.insert(x.id);
            }
        }
        for _ in 0..20 {
            ids.insert(r.next_u64() as u32);
        }
        ids.insert(0);
        ids.insert(u32::MAX);
        ctx.counters.add("lookup.record_probes", ids.len() as u64);
        for id in ids {
            let got: Option<(u32, String)> = match kind {
                Kind::Gene => o.gene(&id.into()).map(|g| (g.id().as_u32(), g.name().to_string())),
                Kind::Omim => o.omim_disease(&id.into()).map(|g| (g.id().as_u32(), g.name().to_string())),
                Kind::Orpha => o.orpha_disease(&id.into()).map(|g| (g.id().as_u32(), g.name().to_string())),
            };
            match (recs.get(&id), got) {
                (Some(n), Some((gid, gn))) => {
                    if gid != id || gn != *n {
                        out.violate(P, "record-wrong-payload", format!("{what}: {kind:?} lookup {id} returned {gid} {gn:?}, expected {n:?}"));
                    }
                }
                (Some(_), None) => out.violate(P, "record-false-negative", format!("{what}: {kind:?} {id} not found")),
                (None, Some((gid, _))) => out.violate(P, "record-false-positive", format!("{what}: {kind:?} lookup {id} returned record {gid}")),
                (None, None) => {}
            }
        }
    }
    // gene by symbol
    // judged against the symbols the built ontology itself shows (deliveries may have named a record differently;
    // whichever name the record ended up with, a lookup must return a gene with exactly the symbol asked for)
    let present_symbols: BTreeSet<String> = o.genes().map(|g| g.name().to_string()).collect();
    let mut symbols: BTreeSet<String> = f.genes.iter().map(|g| g.name.clone()).collect();
    symbols.extend(present_symbols.iter().cloned());
    for g in f.genes.iter().take(8) {
        symbols.insert(format!("{}2", g.name));
    }
    symbols.insert("ALT".into());
    for g in f.genes.iter().take(6) {
        symbols.insert(format!("{}x", g.name));
        symbols.insert(g.name.to_lowercase());
        if g.name.len() > 1 {
            let cut = (1..g.name.len()).rev().find(|i| g.name.is_char_boundary(*i)).unwrap_or(0);
            symbols.insert(g.name[..cut].to_string());
        }
    }
    symbols.insert(String::new());
    symbols.insert("FOOBAR66".into());
    for s in &symbols {
        let got = o.gene_by_name(s).map(|g| g.name().to_string());
        match (present_symbols.contains(s), got) {
            (true, Some(n)) if &n == s => {}
            (true, got) => out.violate(P, "by-name", format!("{what}: gene_by_name({s:?}) returned {got:?}")),
            (false, Some(n)) => out.violate(P, "by-name", format!("{what}: gene_by_name({s:?}) returned a gene named {n:?}")),
            (false, None) => {}
        }
    }
    // disease name search
    let mut queries: BTreeSet<String> = BTreeSet::new();
    queries.insert(String::new());
    queries.insert("anergictcell syndrome".into());
    queries.insert("é".into());
    queries.insert("日".into());
    queries.insert(" ".into());
    queries.insert("  ".into());
    queries.insert("\t".into());
    for d in f.omim.iter().take(8) {
        let cs: Vec<(usize, char)> = d.name.char_indices().collect();
        if cs.is_empty() {
            continue;
        }
        for _ in 0..3 {
            let a = r.usize_below(cs.len());
            let b = r.urange(a, cs.len() - 1);
            let end = cs[b].0 + cs[b].1.len_utf8();
            queries.insert(d.name[cs[a].0..end].to_string());
        }
        queries.insert(d.name.clone());
        queries.insert(format!("{} ", d.name));
        queries.insert(format!(" {}", d.name));
        if let Some(w) = d.name.split(' ').next() {
            queries.insert(format!("{w} "));
            queries.insert(format!(" {w}"));
            queries.insert(format!("\t{w}"));
        }
        queries.insert(format!("{}!", d.name));
        queries.insert(d.name.to_uppercase());
    }
    // names of the other kinds must not be found unless an OMIM disease contains them too
    for d in f.orpha.iter().take(3) {
        queries.insert(d.name.clone());
    }
    // the names the ontology itself shows (see above: the winner among differently named deliveries is unspecified)
    let omim_shown: BTreeMap<u32, String> = o.omim_diseases().map(|g| (g.id().as_u32(), g.name().to_string())).collect();
    for n in omim_shown.values().take(8) {
        queries.insert(n.clone());
    }
    ctx.counters.add("lookup.name_queries", queries.len() as u64);
    for q in &queries {
        let want: BTreeSet<u32> = omim_shown.iter().filter(|(_, n)| n.contains(q.as_str())).map(|(i, _)| *i).collect();
        let mut got: Vec<u32> = o.omim_diseases_by_name(q).map(|d| d.id().as_u32()).collect();
        got.sort_unstable();
        let gset: BTreeSet<u32> = got.iter().copied().collect();
        if gset.len() != got.len() || gset != want {
            out.violate(P, "by-name", format!("{what}: omim_diseases_by_name({q:?}) = {got:?}, expected {want:?}"));
        }
        match o.omim_disease_by_name(q) {
            Some(d) => {
                if !want.contains(&d.id().as_u32()) {
                    out.violate(P, "by-name", format!("{what}: omim_disease_by_name({q:?}) returned {} whose name does not contain the query", d.id().as_u32()));
                }
            }
            None => {
                if !want.is_empty() {
                    out.violate(P, "by-name", format!("{what}: omim_disease_by_name({q:?}) is None but {want:?} match"));
                }
            }
        }
    }
}

//! C18 — comparison reports exactly the differences. Replica A from F, replica B from
//! F' = F after an injected fault set E (alter / drop); `compare` must report exactly E.

use crate::facts::{gen_facts, project_all, FactSet, GenCfg, Kind, Rec, TermFact, KINDS};
use crate::model::closure;
use crate::obs::guarded;
use crate::prng::{mix2, tag, Prng};
use crate::replica::{build, Built, Ctx, PathKind, ReplicaSpec};
use crate::scenario::{Edit, Outcome, Scenario};
use hpo::annotations::{AnnotationId, Disease};
use hpo::comparison::{AnnotationDelta, Comparison};
use hpo::Ontology;
use std::collections::{BTreeMap, BTreeSet};

const P: &str = "C18";

#[derive(Debug, Clone, PartialEq, Eq, Default)]
struct TermDelta {
    id: u32,
    name: Option<(String, String)>,
    added_parents: Vec<u32>,
    removed_parents: Vec<u32>,
    obsolete: Option<(bool, bool)>,
    replacement: Option<(Option<u32>, Option<u32>)>,
}

#[derive(Debug, Clone, PartialEq, Eq, Default)]
struct AnnDelta {
    id: String,
    name: Option<(String, String)>,
    added: Vec<u32>,
    removed: Vec<u32>,
    n_terms: (usize, usize),
}

#[derive(Debug, Clone, PartialEq, Eq, Default)]
struct CmpObs {
    added_terms: Vec<u32>,
    removed_terms: Vec<u32>,
    changed_terms: Vec<TermDelta>,
    added: [Vec<u32>; 3],
    removed: [Vec<u32>; 3],
    changed: [Vec<AnnDelta>; 3],
}

pub fn apply(f: &FactSet, edits: &[Edit]) -> FactSet {
    let mut g = f.clone();
    for e in edits {
        match e {
            Edit::RenameTerm { id, name } => {
                if let Some(t) = g.terms.iter_mut().find(|t| t.id == *id) {
                    t.name = name.clone();
                }
            }
            Edit::FlipObsolete { id } => {
                if let Some(t) = g.terms.iter_mut().find(|t| t.id == *id) {
                    t.obsolete = !t.obsolete;
                }
            }
            Edit::SetReplacement { id, to } => {
                if let Some(t) = g.terms.iter_mut().find(|t| t.id == *id) {
                    t.replacement = *to;
                }
            }
            Edit::AddParent { child, parent } => {
                if g.has_term(*child) && g.has_term(*parent) && !g.isa.contains(&(*child, *parent)) {
                    // keep the graph acyclic whatever the minimiser removed before
                    let anc = closure(&g);
                    if child != parent && !anc[parent].contains(child) {
                        g.isa.push((*child, *parent));
                    }
                }
            }
            Edit::RemoveParent { child, parent } => g.isa.retain(|l| l != &(*child, *parent)),
            Edit::AddTerm { id, name, parent } => {
                if !g.has_term(*id) {
                    g.terms.push(TermFact { id: *id, name: name.clone(), obsolete: false, replacement: None });
                    if let Some(p) = parent {
                        if g.has_term(*p) {
                            g.isa.push((*id, *p));
                        }
                    }
                }
            }
            Edit::RemoveTerm { id } => {
                if *id != 1 && *id != 118 {
                    g.remove_term(*id);
                }
            }
            Edit::RenameRec { kind, id, name } => {
                if let Some(r) = g.recs_mut(*kind).iter_mut().find(|r| r.id == *id) {
                    r.name = name.clone();
                }
            }
            Edit::AddAnn { kind, id, term } => {
                if g.has_term(*term) {
                    if let Some(r) = g.recs_mut(*kind).iter_mut().find(|r| r.id == *id) {
                        r.terms.push(*term);
                    }
                }
            }
            Edit::RemoveAnn { kind, id, term } => {
                if let Some(r) = g.recs_mut(*kind).iter_mut().find(|r| r.id == *id) {
                    r.terms.retain(|t| t != term);
                }
            }
            Edit::AddRec { kind, id, name, terms } => {
                if !g.recs(*kind).iter().any(|r| r.id == *id) {
                    let ts: Vec<u32> = terms.iter().copied().filter(|t| g.has_term(*t)).collect();
                    g.recs_mut(*kind).push(Rec { id: *id, name: name.clone(), terms: ts });
                }
            }
            Edit::RemoveRec { kind, id } => g.recs_mut(*kind).retain(|r| r.id != *id),
        }
    }
    g.normalise();
    g
}

fn draw_edit(r: &mut Prng, f: &FactSet, which: u64) -> Option<Edit> {
    let ids: Vec<u32> = f.terms.iter().map(|t| t.id).collect();
    let targets: BTreeSet<u32> = f.terms.iter().filter_map(|t| t.replacement).collect();
    let free_id = |r: &mut Prng| loop {
        let v = r.range(2, 9_999_999) as u32;
        if !f.has_term(v) && v != 118 {
            return v;
        }
    };
    match which {
        0 => {
            // usually a fresh name; sometimes a change that only shows beyond the first 255 bytes, or in the last character
            // over-long names are rare: prefer them half of the time, so that renames beyond byte 255 occur
            let long: Vec<u32> = f.terms.iter().filter(|t| t.name.len() >= 255).map(|t| t.id).collect();
            let id = if !long.is_empty() && r.chance(1, 2) { *r.pick(&long) } else { *r.pick(&ids) };
            let old = &f.terms.iter().find(|t| t.id == id).unwrap().name;
            let name = match if old.len() >= 255 { r.below(2) } else { r.below(4) } {
                0 => format!("{old}x"),
                1 if old.len() > 1 => {
                    let cut = (0..old.len()).rev().find(|i| old.is_char_boundary(*i)).unwrap_or(0);
                    old[..cut].to_string()
                }
                _ => format!("renamed {}", r.below(1000)),
            };
            if &name == old {
                return None;
            }
            Some(Edit::RenameTerm { id, name })
        }
        1 => Some(Edit::FlipObsolete { id: *r.pick(&ids) }),
        2 => {
            let id = *r.pick(&ids);
            let cur = f.terms.iter().find(|t| t.id == id).unwrap().replacement;
            let to = if cur.is_some() && r.chance(1, 2) {
                None
            } else {
                let c = *r.pick(&ids);
                if Some(c) == cur || c == id || c == 0 {
                    return None;
                }
                Some(c)
            };
            Some(Edit::SetReplacement { id, to })
        }
        3 => {
            let anc = closure(f);
            let child = *r.pick(&ids);
            let cands: Vec<u32> = ids.iter().copied().filter(|p| *p != child && !anc[p].contains(&child) && !f.isa.contains(&(child, *p))).collect();
            if cands.is_empty() {
                return None;
            }
            Some(Edit::AddParent { child, parent: *r.pick(&cands) })
        }
        4 => {
            if f.isa.is_empty() {
                return None;
            }
            let (c, p) = *r.pick(&f.isa);
            if (c, p) == (118, 1) {
                return None;
            }
            Some(Edit::RemoveParent { child: c, parent: p })
        }
        5 => Some(Edit::AddTerm { id: free_id(r), name: format!("new term {}", r.below(1000)), parent: if r.chance(3, 4) { Some(*r.pick(&ids)) } else { None } }),
        6 => {
            let c: Vec<u32> = ids.iter().copied().filter(|i| *i != 1 && *i != 118 && !targets.contains(i)).collect();
            if c.is_empty() {
                return None;
            }
            Some(Edit::RemoveTerm { id: *r.pick(&c) })
        }
        7..=11 => {
            let kind = KINDS[r.usize_below(3)];
            let recs = f.recs(kind);
            match which {
                7 => recs.is_empty().then_some(None).unwrap_or_else(|| Some(Edit::RenameRec { kind, id: r.pick(recs).id, name: format!("renamed rec {}", r.below(1000)) })),
                8 => {
                    if recs.is_empty() {
                        return None;
                    }
                    // half of the time the record with the most terms (groups beyond 30 ids), and an id at either end
                    let rec = if r.chance(1, 2) { recs.iter().max_by_key(|x| x.terms.len()).unwrap() } else { r.pick(recs) };
                    let mut c: Vec<u32> = ids.iter().copied().filter(|t| !rec.terms.contains(t)).collect();
                    if c.is_empty() {
                        return None;
                    }
                    c.sort_unstable();
                    let term = match r.below(4) {
                        0 => c[0],
                        1 => c[c.len() - 1],
                        _ => *r.pick(&c),
                    };
                    Some(Edit::AddAnn { kind, id: rec.id, term })
                }
                9 => {
                    let c: Vec<&Rec> = recs.iter().filter(|x| !x.terms.is_empty()).collect();
                    if c.is_empty() {
                        return None;
                    }
                    let rec = if r.chance(1, 2) { *c.iter().max_by_key(|x| x.terms.len()).unwrap() } else { *r.pick(&c) };
                    let term = match r.below(4) {
                        0 => rec.terms[0],
                        1 => rec.terms[rec.terms.len() - 1],
                        _ => *r.pick(&rec.terms),
                    };
                    Some(Edit::RemoveAnn { kind, id: rec.id, term })
                }
                10 => {
                    let mut id = r.range(1, 40) as u32;
                    while recs.iter().any(|x| x.id == id) {
                        id += 1;
                    }
                    let nt = r.urange(1, 3);
                    let terms: Vec<u32> = (0..nt).map(|_| *r.pick(&ids)).collect();
                    Some(Edit::AddRec { kind, id, name: format!("added rec {id}"), terms })
                }
                _ => recs.is_empty().then_some(None).unwrap_or_else(|| Some(Edit::RemoveRec { kind, id: r.pick(recs).id })),
            }
        }
        _ => None,
    }
}

pub fn generate(r: &mut Prng, seed: u64, run: u64) -> Scenario {
    let mut cfg = GenCfg::draw(r);
    cfg.std_roots = true;
    // over-long names (a rename beyond byte 255) only on a share of the runs; the round-trip clause skips those
    cfg.names = if r.chance(1, 6) { 3 } else { cfg.names.min(2) };
    // records without terms: the text files cannot carry them (the Text projection drops them on that side)
    cfg.rec_no_terms = r.chance(1, 3);
    cfg.n_terms = cfg.n_terms.min(48);
    cfg.fat_record = r.chance(1, 6);
    if cfg.fat_record {
        cfg.n_terms = cfg.n_terms.max(36);
        cfg.max_recs = [cfg.max_recs[0].max(1), cfg.max_recs[1].max(1), cfg.max_recs[2].max(1)];
    }
    let facts = gen_facts(r, &cfg);
    let mut edits = vec![];
    let n_edits = if r.chance(1, 8) { 0 } else if r.chance(1, 2) { 1 } else { r.urange(2, 4) };
    let mut cur = facts.clone();
    for _ in 0..n_edits {
        // each attribute kind forced regularly on its own
        let which = r.below(12);
        if let Some(e) = draw_edit(r, &cur, which) {
            cur = apply(&cur, std::slice::from_ref(&e));
            edits.push(e);
        }
    }
    // wholesale differences: the new release is (almost) empty, or lost every record of one / of every kind
    let mut no_text = false;
    if r.chance(1, 30) {
        match r.below(3) {
            0 => {
                let victims: Vec<u32> = cur.terms.iter().map(|t| t.id).filter(|i| *i != 1 && *i != 118).collect();
                for id in victims {
                    let e = Edit::RemoveTerm { id };
                    cur = apply(&cur, std::slice::from_ref(&e));
                    edits.push(e);
                }
                // the records that are left have no terms: not expressible in the text files
                no_text = true;
            }
            w => {
                for k in KINDS {
                    if w == 1 && k != KINDS[r.usize_below(3)] {
                        continue;
                    }
                    let victims: Vec<u32> = cur.recs(k).iter().map(|x| x.id).collect();
                    for id in victims {
                        let e = Edit::RemoveRec { kind: k, id };
                        cur = apply(&cur, std::slice::from_ref(&e));
                        edits.push(e);
                    }
                }
            }
        }
    }
    // transports that carry obsolete/replacement, mostly the same one on both sides
    let mut pa = *r.pick(&[PathKind::BinV3, PathKind::Text, PathKind::BinV3, PathKind::Builder, PathKind::BinLib]);
    let mut pb = if r.chance(2, 3) { pa } else { *r.pick(&[PathKind::BinV3, PathKind::Text, PathKind::Builder]) };
    if no_text {
        if pa == PathKind::Text {
            pa = PathKind::BinV3;
        }
        if pb == PathKind::Text {
            pb = PathKind::BinV3;
        }
    }
    let replicas = vec![ReplicaSpec::draw(r, pa), ReplicaSpec::draw(r, pb)];
    let mut facts = facts;
    if !replicas.iter().any(|x| x.uses_text()) && r.chance(1, 4) {
        facts.pad_some_names(r);
    }
    Scenario { prop: P.into(), seed, run, facts, replicas, edits, aux_seed: r.next_u64(), ..Default::default() }
}

fn expected(a: &FactSet, b: &FactSet) -> CmpObs {
    let mut e = CmpObs::default();
    let ta: BTreeMap<u32, &TermFact> = a.terms.iter().map(|t| (t.id, t)).collect();
    let tb: BTreeMap<u32, &TermFact> = b.terms.iter().map(|t| (t.id, t)).collect();
    let (pa, pb) = (a.parents_map(), b.parents_map());
    e.added_terms = tb.keys().copied().filter(|i| !ta.contains_key(i)).collect();
    e.removed_terms = ta.keys().copied().filter(|i| !tb.contains_key(i)).collect();
    for (id, x) in &ta {
        let Some(y) = tb.get(id) else { continue };
        let ra = x.replacement.filter(|t| ta.contains_key(t));
        let rb = y.replacement.filter(|t| tb.contains_key(t));
        let d = TermDelta {
            id: *id,
            name: (x.name != y.name).then(|| (x.name.clone(), y.name.clone())),
            added_parents: pb[id].iter().copied().filter(|p| !pa[id].contains(p)).collect(),
            removed_parents: pa[id].iter().copied().filter(|p| !pb[id].contains(p)).collect(),
            obsolete: (x.obsolete != y.obsolete).then_some((x.obsolete, y.obsolete)),
            replacement: (ra != rb).then_some((ra, rb)),
        };
        if d.name.is_some() || !d.added_parents.is_empty() || !d.removed_parents.is_empty() || d.obsolete.is_some() || d.replacement.is_some() {
            e.changed_terms.push(d);
        }
    }
    for (i, k) in KINDS.iter().enumerate() {
        let ra: BTreeMap<u32, &Rec> = a.recs(*k).iter().map(|r| (r.id, r)).collect();
        let rb: BTreeMap<u32, &Rec> = b.recs(*k).iter().map(|r| (r.id, r)).collect();
        e.added[i] = rb.keys().copied().filter(|x| !ra.contains_key(x)).collect();
        e.removed[i] = ra.keys().copied().filter(|x| !rb.contains_key(x)).collect();
        for (id, x) in &ra {
            let Some(y) = rb.get(id) else { continue };
            let d = AnnDelta {
                id: match k {
                    Kind::Gene => format!("NCBI-GeneID:{id}"),
                    Kind::Omim => format!("OMIM:{id}"),
                    Kind::Orpha => format!("ORPHA:{id}"),
                },
                name: (x.name != y.name).then(|| (x.name.clone(), y.name.clone())),
                added: y.terms.iter().copied().filter(|t| !x.terms.contains(t)).collect(),
                removed: x.terms.iter().copied().filter(|t| !y.terms.contains(t)).collect(),
                n_terms: (x.terms.len(), y.terms.len()),
            };
            if d.name.is_some() || !d.added.is_empty() || !d.removed.is_empty() {
                e.changed[i].push(d);
            }
        }
        e.changed[i].sort_by(|a, b| a.id.cmp(&b.id));
    }
    e
}

fn ann(d: &AnnotationDelta) -> AnnDelta {
    let mut added: Vec<u32> = d.added_terms().map(|v| v.iter().map(|t| t.as_u32()).collect()).unwrap_or_default();
    added.sort_unstable();
    let mut removed: Vec<u32> = d.removed_terms().map(|v| v.iter().map(|t| t.as_u32()).collect()).unwrap_or_default();
    removed.sort_unstable();
    AnnDelta { id: d.id().to_string(), name: d.changed_name().cloned(), added, removed, n_terms: d.n_terms() }
}

fn actual(c: &Comparison) -> CmpObs {
    let mut o = CmpObs::default();
    o.added_terms = c.added_hpo_terms().iter().map(|t| t.id().as_u32()).collect();
    o.added_terms.sort_unstable();
    o.removed_terms = c.removed_hpo_terms().iter().map(|t| t.id().as_u32()).collect();
    o.removed_terms.sort_unstable();
    for d in c.changed_hpo_terms() {
        let mut ap: Vec<u32> = d.added_parents().map(|v| v.iter().map(|t| t.as_u32()).collect()).unwrap_or_default();
        ap.sort_unstable();
        let mut rp: Vec<u32> = d.removed_parents().map(|v| v.iter().map(|t| t.as_u32()).collect()).unwrap_or_default();
        rp.sort_unstable();
        o.changed_terms.push(TermDelta {
            id: d.id().as_u32(),
            name: d.changed_name().cloned(),
            added_parents: ap,
            removed_parents: rp,
            obsolete: d.changed_obsolete(),
            replacement: d.changed_replacement().map(|(a, b)| (a.map(|x| x.as_u32()), b.map(|x| x.as_u32()))),
        });
    }
    o.changed_terms.sort_by_key(|d| d.id);
    o.added[0] = c.added_genes().iter().map(|g| g.id().as_u32()).collect();
    o.removed[0] = c.removed_genes().iter().map(|g| g.id().as_u32()).collect();
    o.changed[0] = c.changed_genes().iter().map(ann).collect();
    o.added[1] = c.added_omim_diseases().iter().map(|g| g.id().as_u32()).collect();
    o.removed[1] = c.removed_omim_diseases().iter().map(|g| g.id().as_u32()).collect();
    o.changed[1] = c.changed_omim_diseases().iter().map(ann).collect();
    o.added[2] = c.added_orpha_diseases().iter().map(|g| g.id().as_u32()).collect();
    o.removed[2] = c.removed_orpha_diseases().iter().map(|g| g.id().as_u32()).collect();
    o.changed[2] = c.changed_orpha_diseases().iter().map(ann).collect();
    for i in 0..3 {
        o.added[i].sort_unstable();
        o.removed[i].sort_unstable();
        o.changed[i].sort_by(|a, b| a.id.cmp(&b.id));
    }
    o
}

fn swapped(c: &CmpObs) -> CmpObs {
    let sw = |o: &Option<(String, String)>| o.clone().map(|(a, b)| (b, a));
    CmpObs {
        added_terms: c.removed_terms.clone(),
        removed_terms: c.added_terms.clone(),
        changed_terms: c
            .changed_terms
            .iter()
            .map(|d| TermDelta { id: d.id, name: sw(&d.name), added_parents: d.removed_parents.clone(), removed_parents: d.added_parents.clone(), obsolete: d.obsolete.map(|(a, b)| (b, a)), replacement: d.replacement.map(|(a, b)| (b, a)) })
            .collect(),
        added: c.removed.clone(),
        removed: c.added.clone(),
        changed: [0, 1, 2].map(|i| c.changed[i].iter().map(|d| AnnDelta { id: d.id.clone(), name: sw(&d.name), added: d.removed.clone(), removed: d.added.clone(), n_terms: (d.n_terms.1, d.n_terms.0) }).collect()),
    }
}

fn report(out: &mut Outcome, what: &str, class_prefix: &str, want: &CmpObs, got: &CmpObs) {
    let mut v = |acc: &str, w: String, g: String| out.violate(P, format!("{class_prefix}({acc})"), format!("{what}: {acc}: expected {} got {}", crate::obs::clip(&w), crate::obs::clip(&g)));
    if want.added_terms != got.added_terms {
        v("added_hpo_terms", format!("{:?}", want.added_terms), format!("{:?}", got.added_terms));
    }
    if want.removed_terms != got.removed_terms {
        v("removed_hpo_terms", format!("{:?}", want.removed_terms), format!("{:?}", got.removed_terms));
    }
    if want.changed_terms != got.changed_terms {
        // refine: which part of the delta
        let wi: Vec<u32> = want.changed_terms.iter().map(|d| d.id).collect();
        let gi: Vec<u32> = got.changed_terms.iter().map(|d| d.id).collect();
        if wi != gi {
            v("changed_hpo_terms", format!("ids {wi:?}"), format!("ids {gi:?}"));
        } else {
            for (w, g) in want.changed_terms.iter().zip(got.changed_terms.iter()) {
                if w.name != g.name {
                    v("changed_hpo_terms.changed_name", format!("{:?}", w.name), format!("{:?}", g.name));
                }
                if w.added_parents != g.added_parents {
                    v("changed_hpo_terms.added_parents", format!("{:?}", w.added_parents), format!("{:?}", g.added_parents));
                }
                if w.removed_parents != g.removed_parents {
                    v("changed_hpo_terms.removed_parents", format!("{:?}", w.removed_parents), format!("{:?}", g.removed_parents));
                }
                if w.obsolete != g.obsolete {
                    v("changed_hpo_terms.changed_obsolete", format!("{:?}", w.obsolete), format!("{:?}", g.obsolete));
                }
                if w.replacement != g.replacement {
                    v("changed_hpo_terms.changed_replacement", format!("{:?}", w.replacement), format!("{:?}", g.replacement));
                }
            }
        }
    }
    for (i, k) in ["genes", "omim_diseases", "orpha_diseases"].iter().enumerate() {
        if want.added[i] != got.added[i] {
            v(&format!("added_{k}"), format!("{:?}", want.added[i]), format!("{:?}", got.added[i]));
        }
        if want.removed[i] != got.removed[i] {
            v(&format!("removed_{k}"), format!("{:?}", want.removed[i]), format!("{:?}", got.removed[i]));
        }
        if want.changed[i] != got.changed[i] {
            v(&format!("changed_{k}"), format!("{:?}", want.changed[i]), format!("{:?}", got.changed[i]));
        }
    }
}

fn cmp(a: &Ontology, b: &Ontology) -> Result<CmpObs, String> {
    guarded(|| {
        let c = a.compare(b);
        let _ = format!("{c}");
        actual(&c)
    })
}

pub fn execute(ctx: &mut Ctx, s: &Scenario) -> Outcome {
    let mut out = Outcome::default();
    if s.replicas.len() < 2 {
        return out;
    }
    let fa = s.facts.clone();
    let fb = apply(&s.facts, &s.edits);
    ctx.counters.add("fault.alter_or_drop_edits", s.edits.len() as u64);
    for e in &s.edits {
        let n = format!("{e:?}");
        ctx.counters.add(&format!("fault.edit.{}", n.split([' ', '{']).next().unwrap_or("")), 1);
    }
    ctx.ev(|| format!("edits between replica A and B: {:?}", s.edits));
    for e in &s.edits {
        match e {
            Edit::RenameTerm { id, name } => {
                if let Some(t) = fa.terms.iter().find(|t| t.id == *id) {
                    let common = t.name.bytes().zip(name.bytes()).take_while(|(a, b)| a == b).count();
                    if common >= 255 {
                        ctx.counters.add("probe.rename_differs_only_beyond_byte_255", 1);
                    }
                }
            }
            Edit::AddAnn { kind, id, .. } | Edit::RemoveAnn { kind, id, .. } => {
                if fa.recs(*kind).iter().any(|r| r.id == *id && r.terms.len() >= 30) {
                    ctx.counters.add("probe.annotation_edit_on_record_with_30_or_more_terms", 1);
                }
            }
            _ => {}
        }
    }
    let a = build(ctx, &fa, &s.replicas[0]);
    let b = build(ctx, &fb, &s.replicas[1]);
    out.mixin(tag(&a.describe()));
    out.mixin(tag(&b.describe()));
    let (Built::Ok(oa), Built::Ok(ob)) = (&a, &b) else {
        out.collateral.push(format!("construction failed: A {} / B {}", a.describe(), b.describe()));
        return out;
    };
    out.ontologies += 2;
    let pa = project_all(&fa, &s.replicas[0].projs());
    let pb = project_all(&fb, &s.replicas[1].projs());
    ctx.step(4);
    let want = expected(&pa, &pb);
    match cmp(oa, ob) {
        Ok(got) => {
            out.mixin(tag(&format!("{got:?}")));
            report(&mut out, "compare(A, B)", "accessor-differs", &want, &got);
            // swapping the arguments swaps added/removed and both sides of every pair
            match cmp(ob, oa) {
                Ok(rev) => {
                    if rev != swapped(&got) {
                        report(&mut out, "compare(B, A) vs swapped compare(A, B)", "not-antisymmetric", &swapped(&got), &rev);
                    }
                }
                Err(p) => out.violate(P, "compare-panicked", format!("compare(B, A): {p}")),
            }
        }
        Err(p) => out.violate(P, "compare-panicked", format!("compare(A, B): {p}")),
    }
    // self-compare reports nothing
    for (n, o) in [("A", oa), ("B", ob)] {
        match cmp(o, o) {
            Ok(got) => {
                if got != CmpObs::default() {
                    report(&mut out, &format!("compare({n}, {n})"), "self-nonempty", &CmpObs::default(), &got);
                }
            }
            Err(p) => out.violate(P, "compare-panicked", format!("compare({n}, {n}): {p}")),
        }
    }
    // compare with the binary round trip reports nothing (names stay <= 255 bytes here)
    if fa.max_name_len() <= 255 {
        crate::replica::set_hash((0, s.aux_seed));
        if let Ok(bytes) = guarded(|| oa.as_bytes()) {
            if let Ok(Ok(rt)) = guarded(|| Ontology::from_bytes(&bytes)) {
                out.ontologies += 1;
                ctx.counters.add("probe.roundtrip_compares", 1);
                match cmp(oa, &rt) {
                    Ok(got) => {
                        if got != CmpObs::default() {
                            report(&mut out, "compare(A, roundtrip(A))", "roundtrip-nonempty", &CmpObs::default(), &got);
                        }
                    }
                    Err(p) => out.violate(P, "compare-panicked", format!("compare(A, roundtrip(A)): {p}")),
                }
            }
        }
    }
    out.nontrivial = !s.edits.is_empty();
    let mut h = tag(P);
    for e in &s.edits {
        let n = format!("{e:?}");
        h = mix2(h, tag(n.split([' ', '{']).next().unwrap_or("")));
    }
    out.fingerprint = mix2(h, (s.replicas[0].path as u64) | ((s.replicas[1].path as u64) << 4) | ((s.facts.terms.len().min(40) as u64) << 8));
    out
}

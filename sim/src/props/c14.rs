//! C14 — sub-ontologies keep shortest leaf-root chains, induced links, phenotype links.
//! Scheduled: hash schedule (order of the internal term-set walk => insertion order =>
//! cache-fill order; order of record iteration => annotation replay order), leaf order,
//! duplicated leaves. Oracle is relational against the source replica and the model.

use crate::facts::{gen_facts, project_all, GenCfg, KINDS};
use crate::model::{closure, defaults, facts_of_obs, obs_of, up_dist};
use crate::obs::{diff, digest, guarded, observe, IcCmp, Obs};
use crate::prng::{mix2, tag, Prng};
use crate::props::common::{check_ic_invariants, class_of, draw_sub, run_sub};
use crate::replica::{build, Built, Ctx, PathKind, ReplicaSpec};
use crate::scenario::{Outcome, Scenario, SubSpec};
use std::collections::{BTreeMap, BTreeSet};

const P: &str = "C14";

pub fn generate(r: &mut Prng, seed: u64, run: u64) -> Scenario {
    let mut cfg = GenCfg::draw(r);
    cfg.names = if r.chance(1, 8) { 3 } else { cfg.names.min(2) };
    cfg.cap_paths = true;
    cfg.n_terms = cfg.n_terms.min(60);
    if r.chance(1, 15) {
        // deep or wide graphs so that a request retains more than 30 terms (groups beyond the inline storage)
        cfg.n_terms = r.urange(40, 90);
        cfg.shape = *r.pick(&[0u8, 0, 2, 3]);
    }
    cfg.max_recs = [r.urange(0, 8), r.urange(0, 6), r.urange(0, 6)];
    if run % 400 == 200 {
        // a leaf several hundred parent links below the root
        cfg.n_terms = r.urange(258, 330);
        cfg.shape = 0;
        cfg.extra_roots = false;
        cfg.redundant_edges = r.chance(1, 2);
    }
    let mut facts = gen_facts(r, &cfg);
    // annotations on phenotype terms, modifier descendants and modifier roots
    if let Some(d) = defaults(&facts) {
        if !d.modifier.is_empty() {
            for k in KINDS {
                let recs = facts.recs_mut(k);
                if recs.is_empty() {
                    continue;
                }
                if r.chance(1, 2) {
                    let i = r.usize_below(recs.len());
                    recs[i].terms.push(*r.pick(&d.modifier));
                }
                if r.chance(1, 3) {
                    // a record annotated *only* to a modifier root
                    let i = r.usize_below(recs.len());
                    recs[i].terms = vec![*r.pick(&d.modifier)];
                }
            }
            facts.normalise();
        }
    }
    let std = facts.has_std_roots();
    let path = if std { *r.pick(&[PathKind::Builder, PathKind::Builder, PathKind::BinV3, PathKind::Text, PathKind::BinLib, PathKind::BinV2]) } else { PathKind::Builder };
    let mut spec = ReplicaSpec::draw(r, path);
    if path == PathKind::Builder {
        spec.defaults = std && !r.chance(1, 4);
    }
    let mut sub = draw_sub(r, &facts, 0, true);
    // with std roots, often ask for the whole tree or a modifier branch
    if let (Some(s), Some(d)) = (&mut sub, defaults(&facts)) {
        if !d.modifier.is_empty() && r.chance(1, 4) {
            let anc = closure(&facts);
            s.root = if r.chance(1, 2) { 1 } else { *r.pick(&d.modifier) };
            let desc: Vec<u32> = facts.terms.iter().map(|t| t.id).filter(|i| anc[i].contains(&s.root)).collect();
            s.leaves = if desc.is_empty() { vec![s.root] } else { (0..r.urange(1, 4)).map(|_| *r.pick(&desc)).collect() };
            if r.chance(1, 2) {
                // make sure a modifier root itself is retained as a leaf
                s.leaves.push(*r.pick(&d.modifier));
                if s.root != 1 {
                    s.root = 1;
                }
            }
        }
    }
    Scenario { prop: P.into(), seed, run, facts, replicas: vec![spec], sub, aux_seed: r.next_u64(), ..Default::default() }
}

pub fn execute(ctx: &mut Ctx, s: &Scenario) -> Outcome {
    let mut out = Outcome::default();
    let Some(sub) = &s.sub else { return out };
    let spec = &s.replicas[0];
    let src_b = build(ctx, &s.facts, spec);
    out.mixin(tag(&src_b.describe()));
    let Built::Ok(src) = &src_b else {
        out.collateral.push(format!("source construction failed: {}", src_b.describe()));
        return out;
    };
    out.ontologies += 1;
    let pf = project_all(&s.facts, &spec.projs());
    let mod_roots: Vec<u32> = if spec.has_defaults() { defaults(&pf).map(|d| d.modifier).unwrap_or_default() } else { vec![] };
    let mut r = Prng::new(s.aux_seed);
    let anc = closure(&pf);
    let bad_leaf = sub.leaves.iter().any(|l| pf.has_term(*l) && pf.has_term(sub.root) && *l != sub.root && !anc[l].contains(&sub.root));
    let first = check_request(ctx, &mut out, src, &pf, &mod_roots, sub, &mut r, "");
    // a history on ONE ontology value: request, then the modifier roots are changed through the public
    // `modifier_mut()`, then the same request again — the second result must follow the new roots
    if first.is_some() && r.chance(1, 10) {
        let mut src2: hpo::Ontology = (**src).clone();
        let mut new_roots: Vec<u32> = mod_roots.clone();
        if !new_roots.is_empty() && r.chance(1, 2) {
            let i = r.usize_below(new_roots.len());
            new_roots.remove(i);
        }
        if r.chance(2, 3) {
            let cand: Vec<u32> = pf.terms.iter().map(|t| t.id).filter(|i| *i != 1 && !new_roots.contains(i)).collect();
            if !cand.is_empty() {
                new_roots.push(*r.pick(&cand));
            }
        }
        new_roots.sort_unstable();
        if new_roots != mod_roots {
            *src2.modifier_mut() = hpo::term::HpoGroup::from(new_roots.clone());
            ctx.counters.add("probe.request_repeated_after_modifier_mut", 1);
            let _ = check_request(ctx, &mut out, &src2, &pf, &new_roots, sub, &mut r, "after modifier_mut(): ");
        }
    }
    // a multi-step history: a sub-ontology of the sub-ontology (its source has no modifier roots: build_minimal)
    if let Some((o1, obs1)) = first {
        if r.chance(1, 3) && obs1.terms.len() >= 2 {
            let f1 = facts_of_obs(&obs1);
            if let Some(sub2) = draw_sub(&mut r, &f1, 0, true) {
                ctx.counters.add("probe.chained_sub_ontology", 1);
                let _ = check_request(ctx, &mut out, &o1, &f1, &[], &sub2, &mut r, "second-level ");
            }
        }
    }
    out.nontrivial = out.ontologies >= 2;
    out.fingerprint = mix2(
        mix2(tag(P), tag(&spec.label())),
        (sub.leaves.len().min(7) as u64) | (u64::from(bad_leaf) << 4) | ((s.facts.terms.len().min(60) as u64) << 8) | (u64::from(sub.root == 1) << 16) | (u64::from(sub.root == 118) << 17) | (u64::from(mod_roots.contains(&sub.root)) << 18) | (u64::from(sub.hash.0) << 20),
    );
    out
}

/// One sub-ontology request against `src` (whose direct facts are `pf`), executed under 2-3 schedules.
/// Returns the first result (for chaining) when the request was legal and accepted.
#[allow(clippy::too_many_arguments)]
fn check_request(ctx: &mut Ctx, out: &mut Outcome, src: &hpo::Ontology, pf: &crate::facts::FactSet, mod_roots: &[u32], sub: &SubSpec, r: &mut Prng, level: &str) -> Option<(Box<hpo::Ontology>, Obs)> {
    let anc = closure(pf);
    let ids = pf.term_ids();
    if !ids.contains(&sub.root) || sub.leaves.iter().any(|l| !ids.contains(l)) || sub.leaves.is_empty() {
        return None;
    }
    let bad_leaf = sub.leaves.iter().any(|l| *l != sub.root && !anc[l].contains(&sub.root));
    let is_modifier = |t: u32| mod_roots.iter().any(|m| *m == t || anc[&t].contains(m));
    let mut first: Option<(Box<hpo::Ontology>, Obs)> = None;
    // the same request under 2-3 schedules: hash schedule and leaf order / multiplicity vary
    let mut variants: Vec<SubSpec> = vec![sub.clone()];
    let nv = r.urange(1, 2);
    for _ in 0..nv {
        let mut v = sub.clone();
        r.shuffle(&mut v.leaves);
        if r.chance(1, 2) {
            let d = *r.pick(&v.leaves);
            v.leaves.push(d);
        }
        v.hash = (if r.chance(1, 2) { 0 } else { r.range(1, 3) as u8 }, r.next_u64());
        variants.push(v);
    }
    let mut results: Vec<Obs> = vec![];
    for (vi, v) in variants.iter().enumerate() {
        let what = format!("{level}sub_ontology(root={}, leaves={:?}, hash-mode={})", v.root, v.leaves, v.hash.0);
        let b = run_sub(ctx, src, v);
        out.mixin(tag(&b.describe()));
        match (&b, bad_leaf) {
            (Built::Ok(_), true) => {
                out.violate(P, "wrong-error(accepted)", format!("{what}: accepted although a leaf is neither root nor below root"));
                continue;
            }
            (Built::Err(_), true) => {
                ctx.counters.add("probe.bad_leaf_refused", 1);
                continue;
            }
            (Built::Err(e), false) => {
                out.violate(P, "wrong-error(refused)", format!("{what}: refused with {e} although every leaf is root or below root"));
                continue;
            }
            (Built::Panic(p), _) => {
                out.violate(P, "sub-ontology-panicked", format!("{what}: {p}"));
                continue;
            }
            (Built::Ok(_), false) => {}
        }
        let Built::Ok(o) = &b else { continue };
        out.ontologies += 1;
        let got = observe(o);
        out.mixin(digest(&got));
        let retained: BTreeSet<u32> = got.terms.iter().map(|t| t.id).collect();
        if retained.len() > 30 {
            ctx.counters.add("probe.retained_more_than_30_terms", 1);
        }
        if retained.iter().any(|t| mod_roots.contains(t)) {
            ctx.counters.add("probe.modifier_root_retained", 1);
        }
        ctx.counters.add("probe.records_kept", (got.genes.len() + got.omim.len() + got.orpha.len()) as u64);
        // root and all leaves retained
        if !retained.contains(&v.root) {
            out.violate(P, "missing-root", format!("{what}: root not in the result"));
        }
        for l in &v.leaves {
            if !retained.contains(l) {
                out.violate(P, "missing-leaf", format!("{what}: leaf {l} not in the result"));
            }
        }
        // only terms on a shortest chain from some leaf to root
        let dists: Vec<(u32, BTreeMap<u32, u32>)> = v.leaves.iter().collect::<BTreeSet<_>>().into_iter().map(|l| (*l, up_dist(&pf, *l))).collect();
        let mut to_root: BTreeMap<u32, BTreeMap<u32, u32>> = BTreeMap::new();
        for rt in &retained {
            if !ids.contains(rt) {
                out.violate(P, "foreign-term", format!("{what}: result contains {rt} which the source does not have"));
                continue;
            }
            let dr = to_root.entry(*rt).or_insert_with(|| up_dist(&pf, *rt));
            let on_chain = dists.iter().any(|(_, dl)| match (dl.get(rt), dr.get(&v.root), dl.get(&v.root)) {
                (Some(a), Some(b), Some(c)) => a + b == *c,
                _ => false,
            });
            if !on_chain {
                out.violate(P, "off-shortest-chain", format!("{what}: retained term {rt} lies on no shortest chain from a leaf to root"));
            }
        }
        // copied names and flags; links exactly the source links between retained terms
        let src_terms: BTreeMap<u32, &crate::facts::TermFact> = pf.terms.iter().map(|t| (t.id, t)).collect();
        let pm = pf.parents_map();
        for t in &got.terms {
            let Some(st) = src_terms.get(&t.id) else { continue };
            if t.name != st.name || t.obsolete != st.obsolete || t.replacement != st.replacement {
                out.violate(P, "copied-field", format!("{what}: term {}: name/obsolete/replacement {:?}/{}/{:?} but source has {:?}/{}/{:?}", t.id, t.name, t.obsolete, t.replacement, st.name, st.obsolete, st.replacement));
            }
            let want: Vec<u32> = pm[&t.id].iter().copied().filter(|p| retained.contains(p)).collect();
            if t.parents != want {
                out.violate(P, "link-not-induced", format!("{what}: term {} has parents {:?}, source links between retained terms are {:?}", t.id, t.parents, want));
            }
        }
        // every leaf reaches root at its original distance
        if let Some(root_t) = o.hpo(v.root) {
            for (l, dl) in &dists {
                if let Some(lt) = o.hpo(*l) {
                    let got_d = guarded(|| lt.distance_to_ancestor(&root_t));
                    let want_d = dl.get(&v.root).map(|d| *d as usize);
                    match got_d {
                        Ok(g) => {
                            if g != want_d {
                                out.violate(P, "leaf-distance", format!("{what}: distance {l} -> root is {g:?} in the result, {want_d:?} in the source graph"));
                            }
                        }
                        Err(p) => out.violate(P, "sub-ontology-panicked", format!("{what}: distance_to_ancestor panicked: {p}")),
                    }
                    // and the source ontology agrees with the model on that distance
                    if let (Some(a), Some(b)) = (src.hpo(*l), src.hpo(v.root)) {
                        if let Ok(sd) = guarded(|| a.distance_to_ancestor(&b)) {
                            if sd != want_d {
                                out.collateral.push(format!("source distance_to_ancestor({l},{}) = {sd:?}, BFS says {want_d:?}", v.root));
                            }
                        }
                    }
                }
            }
        }
        // a record is kept iff directly annotated to >= 1 retained non-modifier term; then linked to
        // exactly the retained subset of its direct terms
        for (ki, k) in KINDS.iter().enumerate() {
            let got_recs = [&got.genes, &got.omim, &got.orpha][ki];
            let got_map: BTreeMap<u32, &crate::obs::RecObs> = got_recs.iter().map(|x| (x.id, x)).collect();
            for rec in pf.recs(*k) {
                let kept_terms: Vec<u32> = rec.terms.iter().copied().filter(|t| retained.contains(t)).collect();
                let keep = kept_terms.iter().any(|t| !is_modifier(*t));
                match (keep, got_map.get(&rec.id)) {
                    (true, None) => out.violate(P, "record-dropped-wrongly", format!("{what}: {k:?} {} is annotated to retained phenotype term(s) {:?} but missing", rec.id, kept_terms)),
                    (false, Some(g)) => {
                        let only_mod_roots = kept_terms.iter().all(|t| mod_roots.contains(t));
                        let class = if !kept_terms.is_empty() && only_mod_roots { "record-kept-wrongly(modifier-root-only)" } else { "record-kept-wrongly" };
                        out.violate(P, class, format!("{what}: {k:?} {} kept with terms {:?}, but its retained direct terms {:?} are all modifier terms (or none)", rec.id, g.terms, kept_terms));
                    }
                    (true, Some(g)) => {
                        if g.terms != kept_terms {
                            out.violate(P, "record-terms", format!("{what}: {k:?} {} linked to {:?}, retained subset of its direct terms is {:?}", rec.id, g.terms, kept_terms));
                        }
                        if g.name != rec.name {
                            out.violate(P, "copied-field", format!("{what}: {k:?} {} name {:?} vs source {:?}", rec.id, g.name, rec.name));
                        }
                    }
                    (false, None) => {}
                }
            }
            for g in got_recs {
                if !pf.recs(*k).iter().any(|x| x.id == g.id) {
                    out.violate(P, "foreign-record", format!("{what}: {k:?} {} is not a record of the source", g.id));
                }
            }
        }
        // the result again satisfies closure / inheritance / IC for its own fact set
        let own = facts_of_obs(&got);
        let expected = obs_of(&own, false);
        for d in diff(&expected, &got, IcCmp::Ulp) {
            if d.field == "version" {
                continue;
            }
            out.violate(P, format!("inner-invariant:{}", class_of(&d)), format!("{what}: {} [{}] expected {} got {}", d.field, d.key, crate::obs::clip(&d.a), crate::obs::clip(&d.b)));
        }
        for (owner, msg) in &got.anomalies {
            out.violate(P, format!("inner-invariant:anomaly:{owner}"), format!("{what}: {msg}"));
        }
        let before = out.violations.len();
        check_ic_invariants(out, P, &what, &got);
        for v in out.violations.iter_mut().skip(before) {
            v.class = format!("inner-invariant:{}", v.class);
        }
        let _ = vi;
        if first.is_none() {
            if let Built::Ok(o) = b {
                first = Some((o, got.clone()));
            }
        }
        results.push(got);
    }
    // same retained set => same ontology, whatever the hash schedule and leaf order
    for i in 1..results.len() {
        let (a, b) = (&results[0], &results[i]);
        let ra: Vec<u32> = a.terms.iter().map(|t| t.id).collect();
        let rb: Vec<u32> = b.terms.iter().map(|t| t.id).collect();
        if ra == rb {
            for d in crate::obs::diff_opts(a, b, IcCmp::Bits, true) {
                out.violate(P, format!("depends-on-hash-or-leaf-order:{}", class_of(&d)), format!("schedules {:?} vs {:?}: {} [{}] {} vs {}", variants[0].hash, variants[i].hash, d.field, d.key, crate::obs::clip(&d.a), crate::obs::clip(&d.b)));
            }
        } else {
            ctx.counters.add("probe.retained_set_varies_with_schedule", 1);
        }
    }
    first
}

//! C15 — rejected builder calls have no effect; built ontologies have no dangling ids.
//! System: the Builder path with the *drop* fault on (term facts lost in transit, their
//! dependants still delivered) plus calls on ids that never existed, in every typestate.

use crate::channel::{ordered_anns, ordered_links, ordered_terms, Dup, Order};
use crate::facts::{gen_facts, project, FactSet, GenCfg, Kind, Proj, Rec, TermFact, KINDS};
use crate::model::obs_of;
use crate::obs::{digest, guarded, observe, IcCmp};
use crate::prng::{mix2, tag, Prng};
use crate::props::common::{report_anomalies, report_diffs};
use crate::replica::{build, set_hash, Built, Ctx, PathKind, ReplicaSpec};
use crate::scenario::{Op, Outcome, Scenario};
use hpo::builder::Builder;
use hpo::{HpoError, Ontology};
use std::collections::BTreeSet;

const P: &str = "C15";

pub fn generate(r: &mut Prng, seed: u64, run: u64) -> Scenario {
    let mut cfg = GenCfg::draw(r);
    cfg.obsolete = false;
    // the Builder keeps names of any length (only the binary format cuts them): sometimes over-long symbols
    cfg.names = if r.chance(1, 10) { 3 } else { cfg.names.min(1) };
    cfg.n_terms = cfg.n_terms.min(25);
    if run % 50 == 25 {
        // a chain deeper than any fixed recursion bound one might be tempted to add (valid calls must stay valid)
        cfg.n_terms = r.urange(36, 80);
        cfg.shape = 0;
        cfg.extra_roots = false;
    }
    cfg.max_recs = [r.urange(0, 5), r.urange(0, 4), r.urange(0, 4)];
    let facts = gen_facts(r, &cfg);
    // drop fault: 0-2 term facts are lost (never the std roots: that is C19's clause)
    let mut drop_terms: Vec<u32> = vec![];
    if r.chance(3, 4) {
        let k = r.urange(1, 2);
        for _ in 0..k {
            let t = r.pick(&facts.terms).id;
            if t != 1 && t != 118 && !drop_terms.contains(&t) {
                drop_terms.push(t);
            }
        }
    }
    let delivered: Vec<TermFact> = facts.terms.iter().filter(|t| !drop_terms.contains(&t.id)).cloned().collect();
    let present: BTreeSet<u32> = delivered.iter().map(|t| t.id).collect();
    let absent_id = |r: &mut Prng| -> u32 {
        loop {
            // also ids that have no slot in the id table at all (>= 10^7) — never *added*, only referenced
            if r.chance(1, 6) {
                let v = *r.pick(&[10_000_000u32, 10_000_001, 16_777_216, u32::MAX, u32::MAX - 1, 123_456_789, 0, 0]);
                // (HP:0000000 is the id of the arena's placeholder entry: absent unless a real term 0 was added)
                if !facts.has_term(v) {
                    return v;
                }
                continue;
            }
            let v = if r.chance(1, 2) { r.range(1, 300) as u32 } else { r.range(1, 9_999_999) as u32 };
            if !facts.has_term(v) {
                return v;
            }
        }
    };
    let mut fired = 0u64;
    let mut ops: Vec<Op> = vec![];
    let mut tf = facts.clone();
    tf.terms = delivered.clone();
    for t in ordered_terms(&tf, Order::draw(r), Dup::draw(r), &mut fired) {
        ops.push(Op::NewTerm { id: t.id, name: t.name });
    }
    let vpos = r.usize_below(ops.len() + 1);
    ops.insert(vpos, Op::SetVersion { v: facts.version });
    // links of the original fact set: those mentioning a dropped term dangle
    let mut links: Vec<Op> = ordered_links(&facts, Order::draw(r), Dup::draw(r), &mut fired).into_iter().map(|(c, p)| Op::AddParent { parent: p, child: c }).collect();
    // explicit calls on ids that never existed, biased to sit first / between valid calls on the same parent
    let extra = r.urange(0, 3);
    for _ in 0..extra {
        let a = absent_id(r);
        let op = match r.below(4) {
            0 => Op::AddParent { parent: a, child: present.iter().next().copied().unwrap_or(a) },
            1 | 2 => {
                // existing parent, absent child — right next to a valid call on that parent when there is one
                let parent = if present.is_empty() { a } else { *r.pick(&present.iter().copied().collect::<Vec<_>>()) };
                Op::AddParent { parent, child: a }
            }
            _ => Op::AddParent { parent: a, child: absent_id(r) },
        };
        let pos = if r.chance(1, 3) {
            0
        } else if let Op::AddParent { parent, .. } = &op {
            links.iter().position(|l| matches!(l, Op::AddParent{parent: p2, ..} if p2 == parent)).map_or(r.usize_below(links.len() + 1), |i| i + 1)
        } else {
            r.usize_below(links.len() + 1)
        };
        links.insert(pos.min(links.len()), op);
    }
    ops.extend(links);
    let mut anns: Vec<Op> = ordered_anns(&facts, Order::draw(r), Dup::draw(r), *r.pick(&[0u32, 200, 1000]), &mut fired)
        .into_iter()
        .map(|a| match a.term {
            Some(t) => Op::Annotate { kind: a.kind, id: a.rec, name: a.name, term: t },
            None => Op::AddRec { kind: a.kind, id: a.rec, name: a.name },
        })
        .collect();
    let extra = r.urange(0, 4);
    for j in 0..extra {
        let kind = KINDS[r.usize_below(3)];
        let t = absent_id(r);
        // either a record that exists nowhere else (its first and only call fails) or an existing one
        let (id, name) = if r.chance(1, 2) || facts.recs(kind).is_empty() {
            let mut id = r.range(1, 50) as u32 + 1000 * (j as u32 + 1);
            while facts.recs(kind).iter().any(|x| x.id == id) {
                id += 1;
            }
            (id, format!("only-failing-{id}"))
        } else {
            let x = r.pick(facts.recs(kind));
            // the rejected call may carry another name than the one the record is known under
            (x.id, if r.chance(1, 3) { format!("{}-as-named-by-the-rejected-call", x.name) } else { x.name.clone() })
        };
        let op = Op::Annotate { kind, id, name, term: t };
        let pos = if r.chance(1, 2) { 0 } else { r.usize_below(anns.len() + 1) };
        anns.insert(pos, op);
    }
    ops.extend(anns);
    let hm = if r.chance(3, 5) { 0 } else { r.range(1, 3) as u8 };
    let mut spec = ReplicaSpec::canonical(PathKind::Builder);
    spec.hash = (hm, r.next_u64());
    spec.defaults = present.contains(&1) && present.contains(&118) && r.chance(1, 2);
    Scenario { prop: P.into(), seed, run, facts, replicas: vec![spec], ops, drop_terms, aux_seed: r.next_u64(), ..Default::default() }
}

struct Accepted {
    facts: FactSet,
}

fn rec_mut<'a>(f: &'a mut FactSet, k: Kind, id: u32, name: &str) -> &'a mut Rec {
    let v = f.recs_mut(k);
    if let Some(i) = v.iter().position(|x| x.id == id) {
        &mut v[i]
    } else {
        v.push(Rec { id, name: name.to_string(), terms: vec![] });
        v.last_mut().unwrap()
    }
}

pub fn execute(ctx: &mut Ctx, s: &Scenario) -> Outcome {
    let mut out = Outcome::default();
    let spec = &s.replicas[0];
    let what = "builder-history";
    // the terms the builder actually received
    let mut acc = Accepted { facts: FactSet { version: (0, 0, 0), ..Default::default() } };
    for op in &s.ops {
        if let Op::NewTerm { id, name } = op {
            if !acc.facts.has_term(*id) {
                acc.facts.terms.push(TermFact { id: *id, name: name.clone(), obsolete: false, replacement: None });
            }
        }
        if let Op::SetVersion { v } = op {
            acc.facts.version = *v;
        }
    }
    let present: BTreeSet<u32> = acc.facts.term_ids();
    set_hash(spec.hash);
    ctx.step(s.ops.len() as u64 + 3);
    let mut wrong: Vec<(String, String)> = vec![];
    let mut rejected = 0u64;
    let mut accepted_links: Vec<(u32, u32)> = vec![];
    let mut accepted_recs: Vec<(Kind, u32, String, Option<u32>)> = vec![];
    let defaults = spec.defaults;
    let r = guarded(|| -> Result<Ontology, String> {
        let mut b = Builder::new();
        for op in &s.ops {
            match op {
                Op::NewTerm { id, name } => b.new_term(name, *id),
                Op::SetVersion { v } => b.set_hpo_version(*v),
                _ => {}
            }
        }
        let mut b = b.terms_complete();
        for op in &s.ops {
            if let Op::AddParent { parent, child } = op {
                let want_ok = present.contains(parent) && present.contains(child);
                match b.add_parent(*parent, *child) {
                    Ok(()) => {
                        if want_ok {
                            accepted_links.push((*child, *parent));
                        } else {
                            wrong.push(("wrong-return(add_parent)".into(), format!("add_parent(parent={parent}, child={child}) returned Ok although a term is absent")));
                        }
                    }
                    Err(e) => {
                        rejected += 1;
                        if want_ok {
                            wrong.push(("wrong-return(add_parent)".into(), format!("add_parent(parent={parent}, child={child}) returned {e:?} although both terms exist")));
                        } else if !matches!(e, HpoError::DoesNotExist) {
                            wrong.push(("wrong-return(add_parent)".into(), format!("add_parent(parent={parent}, child={child}) returned {e:?}, documented is DoesNotExist")));
                        }
                    }
                }
            }
        }
        let mut b = b.connect_all_terms();
        for op in &s.ops {
            match op {
                Op::AddRec { kind, id, name } => {
                    match kind {
                        Kind::Gene => b.add_gene(name, (*id).into()),
                        Kind::Omim => {
                            b.add_omim_disease(name, (*id).into());
                        }
                        Kind::Orpha => {
                            b.add_orpha_disease(name, (*id).into());
                        }
                    }
                    accepted_recs.push((*kind, *id, name.clone(), None));
                }
                Op::Annotate { kind, id, name, term } => {
                    let want_ok = present.contains(term);
                    let res = match kind {
                        Kind::Gene => b.annotate_gene((*id).into(), name, (*term).into()),
                        Kind::Omim => b.annotate_omim_disease((*id).into(), name, (*term).into()),
                        Kind::Orpha => b.annotate_orpha_disease((*id).into(), name, (*term).into()),
                    };
                    match res {
                        Ok(()) => {
                            if want_ok {
                                accepted_recs.push((*kind, *id, name.clone(), Some(*term)));
                            } else {
                                wrong.push((format!("wrong-return(annotate_{kind:?})"), format!("annotate_{kind:?}({id}, {term}) returned Ok although the term is absent")));
                            }
                        }
                        Err(e) => {
                            rejected += 1;
                            if want_ok {
                                wrong.push((format!("wrong-return(annotate_{kind:?})"), format!("annotate_{kind:?}({id}, {term}) returned {e:?} although the term exists")));
                            }
                        }
                    }
                }
                _ => {}
            }
        }
        let b = b.calculate_information_content().map_err(|e| format!("{e:?}"))?;
        if defaults {
            b.build_with_defaults().map_err(|e| format!("{e:?}"))
        } else {
            Ok(b.build_minimal())
        }
    });
    ctx.counters.add("fault.dropped_term_facts", s.drop_terms.len() as u64);
    let beyond = s.ops.iter().filter(|op| match op {
        Op::AddParent { parent, child } => *parent >= 10_000_000 || *child >= 10_000_000,
        Op::Annotate { term, .. } => *term >= 10_000_000,
        _ => false,
    }).count();
    ctx.counters.add("probe.calls_on_ids_beyond_the_id_table", beyond as u64);
    // a rejected annotate call that is the first mention of its record
    let mut seen: BTreeSet<(Kind, u32)> = BTreeSet::new();
    for op in &s.ops {
        match op {
            Op::AddRec { kind, id, .. } => {
                seen.insert((*kind, *id));
            }
            Op::Annotate { kind, id, term, .. } => {
                if !present.contains(term) && !seen.contains(&(*kind, *id)) {
                    ctx.counters.add("probe.rejected_call_is_first_mention_of_record", 1);
                }
                seen.insert((*kind, *id));
            }
            _ => {}
        }
    }
    ctx.counters.add("fault.rejected_calls", rejected);
    for (c, d) in wrong {
        out.violate(P, c, format!("{what}: {d}"));
    }
    acc.facts.isa = accepted_links;
    for (k, id, name, t) in accepted_recs {
        let rec = rec_mut(&mut acc.facts, k, id, &name);
        if let Some(t) = t {
            rec.terms.push(t);
        }
    }
    acc.facts.normalise();
    let o = match r {
        Ok(Ok(o)) => o,
        Ok(Err(e)) => {
            out.violate(P, "build-failed", format!("{what}: {e}"));
            out.mixin(tag(&e));
            return out;
        }
        Err(p) => {
            out.violate(P, "builder-panicked", format!("{what}: {p}"));
            out.mixin(tag(&p));
            return out;
        }
    };
    out.ontologies += 1;
    // (1) referential closure: the whole read API walks without panic or dangling id
    let got = observe(&o);
    out.mixin(digest(&got));
    ctx.counters.add("probe.walk_panics", u64::from(got.probes.panics));
    for (owner, msg) in &got.anomalies {
        let class = if msg.contains("panicked") { "dangling-after-error".to_string() } else { format!("anomaly:{owner}") };
        out.violate(P, class, format!("{what}: {msg}"));
    }
    let _ = report_anomalies;
    // (2) equals the model of the accepted calls ...
    let pf = project(&acc.facts, Proj::Builder);
    let expected = obs_of(&pf, defaults);
    report_diffs(&mut out, P, &format!("{what}|effect-of-rejected-call"), &expected, &got, IcCmp::Ulp);
    // ... and a second, fault-free Builder fed the accepted calls only
    let mut clean = ReplicaSpec::canonical(PathKind::Builder);
    clean.defaults = defaults;
    clean.version_at = 0;
    if let Built::Ok(o2) = build(ctx, &pf, &clean) {
        out.ontologies += 1;
        let got2 = observe(&o2);
        out.mixin(digest(&got2));
        report_diffs(&mut out, P, &format!("{what} vs fault-free builder|differs-from-fault-free-builder"), &got2, &got, IcCmp::Bits);
    }
    out.nontrivial = rejected > 0;
    let kinds_rejected = s.ops.iter().filter(|op| matches!(op, Op::Annotate{term, ..} if !present.contains(term))).count() as u64;
    out.fingerprint = mix2(mix2(tag(P), s.ops.len().min(40) as u64 | (rejected.min(15) << 8) | (kinds_rejected.min(7) << 16)), u64::from(spec.hash.0) | (u64::from(defaults) << 4) | ((s.drop_terms.len() as u64) << 8));
    out
}

//! C08 — decoder honours layouts v1-v3 and never accepts truncated or extended files.
//! (a) layout: independent encoders, scheduled record orders; (b) crash points: every truncation
//! offset, a suffix family, every unsupported version byte — enumerated per generated file;
//! (c) SimDisk: writers without fsync / overwriting in place, crash at every syscall index.

use crate::binenc::{encode, section_ends, BinOrders};
use crate::disk::{self, ImageClass};
use crate::facts::{gen_facts, project_all, FactSet, GenCfg, Proj};
use crate::model::obs_of;
use crate::obs::{digest, guarded, observe, IcCmp};
use crate::prng::{mix2, tag, Prng};
use crate::props::common::{report_anomalies, report_diffs};
use crate::replica::{build, bytes_for, load_bytes, set_hash, Built, Ctx, PathKind, ReplicaSpec};
use crate::scenario::{DiskSpec, Outcome, Scenario};
use hpo::Ontology;

const P: &str = "C08";

pub fn generate(r: &mut Prng, seed: u64, run: u64, thorough: bool) -> Scenario {
    let mut cfg = GenCfg::draw(r);
    cfg.std_roots = true;
    cfg.text_version = r.chance(1, 2);
    let mode = match r.below(10) {
        0..=3 => "layout",
        4..=7 => "truncate",
        _ => "disk",
    };
    if run % (if thorough { 2_000 } else { 160 }) == 80 {
        // more than 65 535 term records in one file, in each format version (fixed run indices: in every batch)
        let n = r.urange(65_536, 65_800);
        let facts = crate::facts::many_terms_facts(r, n, true);
        let mut replicas = vec![];
        for p in [PathKind::BinV1, PathKind::BinV2, PathKind::BinV3] {
            let mut sp = ReplicaSpec::draw(r, p);
            if sp.hash.0 == 3 {
                sp.hash.0 = 0;
            }
            sp.via_file = false;
            replicas.push(sp);
        }
        return Scenario { prop: P.into(), seed, run, mode: "layout".into(), facts, replicas, aux_seed: r.next_u64(), ..Default::default() };
    }
    if r.chance(1, 30) {
        // the binary files shipped with the repository (thorough: sometimes the full ontology)
        let big = thorough && r.chance(1, 40);
        let n = crate::facts::real_files(big).len();
        if n > 0 {
            let which = r.usize_below(n);
            let rf = &crate::facts::real_files(big)[which];
            let p = match rf.version {
                1 => PathKind::BinV1,
                2 => PathKind::BinV2,
                _ => PathKind::BinV3,
            };
            let replicas = vec![ReplicaSpec::draw(r, p), ReplicaSpec::draw(r, p)];
            return Scenario { prop: P.into(), seed, run, mode: format!("realfile:{}", rf.name), facts: rf.facts.clone(), replicas, aux_seed: r.next_u64(), ..Default::default() };
        }
    }
    if mode != "layout" {
        // files of 60 B - 4 KB so that every offset can be enumerated
        cfg.n_terms = if thorough && r.chance(1, 10) { r.urange(20, 60) } else { r.urange(2, 14) };
        cfg.max_recs = [r.usize_below(4), r.usize_below(3), r.usize_below(3)];
        cfg.names = cfg.names.min(2);
    } else if r.chance(1, 4) {
        cfg.names = 3;
    }
    let mut facts = gen_facts(r, &cfg);
    let mut replicas: Vec<ReplicaSpec> = vec![];
    match mode {
        "layout" => {
            for p in [PathKind::BinV1, PathKind::BinV2, PathKind::BinV3] {
                for _ in 0..2 {
                    replicas.push(ReplicaSpec::draw(r, p));
                }
            }
        }
        _ => {
            let p = *r.pick(&[PathKind::BinV1, PathKind::BinV2, PathKind::BinV3, PathKind::BinV3, PathKind::BinLib]);
            replicas.push(ReplicaSpec::draw(r, p));
            // the "previous file" for in-place overwrites
            let op = *r.pick(&[PathKind::BinV2, PathKind::BinV3, PathKind::BinV1]);
            replicas.push(ReplicaSpec::draw(r, op));
        }
    }
    if replicas.iter().any(|x| x.uses_text()) {
        facts.version = (facts.version.0 % 10_000, facts.version.1 % 100, facts.version.2 % 100);
    } else if r.chance(1, 3) {
        facts.pad_some_names(r);
    }
    let disk = if mode == "disk" {
        let writer = if r.chance(1, 2) { 1 } else { 3 };
        Some(DiskSpec { writer, chunk: *r.pick(&[5usize, 16, 64, 100, 512, 4096]), fsync: r.chance(1, 4), block: *r.pick(&[16usize, 64, 512, 4096]), crash_at: None, durable_bits: r.next_u64(), old_from: if r.chance(3, 4) { Some(1) } else { None } })
    } else {
        None
    };
    Scenario { prop: P.into(), seed, run, mode: mode.into(), facts, replicas, disk, aux_seed: r.next_u64(), ..Default::default() }
}

fn version_of(p: PathKind) -> u8 {
    match p {
        PathKind::BinV1 => 1,
        PathKind::BinV2 => 2,
        _ => 3,
    }
}

/// The "previous" fact set: F with a few terms removed or with extra records, so the old file is
/// a different valid file, shorter or longer than the new one
fn older(f: &FactSet, r: &mut Prng) -> FactSet {
    let mut g = f.clone();
    let victims: Vec<u32> = g.terms.iter().map(|t| t.id).filter(|i| *i != 1 && *i != 118).collect();
    if r.chance(1, 2) {
        for _ in 0..r.urange(1, 3) {
            if !victims.is_empty() {
                g.remove_term(*r.pick(&victims));
            }
        }
    } else {
        for j in 0..r.urange(1, 4) {
            g.omim.push(crate::facts::Rec { id: 900_000 + j as u32, name: format!("older record number {j} with a long enough name to make the old file longer"), terms: vec![1] });
        }
    }
    g.version = (2001, 1, 1);
    g
}

/// Structural pre-screen for torn images only: does the term section contain a record whose length field is 0?
fn torn_would_not_terminate(b: &[u8]) -> bool {
    let mut pos = if b.len() >= 4 && &b[0..3] == b"HPO" { 8 } else { 0 };
    if pos + 4 > b.len() {
        return false;
    }
    let l = u32::from_be_bytes([b[pos], b[pos + 1], b[pos + 2], b[pos + 3]]) as usize;
    pos += 4;
    let end = pos.saturating_add(l).min(b.len());
    while pos + 4 <= end {
        let rl = u32::from_be_bytes([b[pos], b[pos + 1], b[pos + 2], b[pos + 3]]) as usize;
        if rl == 0 {
            return true;
        }
        pos = pos.saturating_add(rl);
    }
    false
}

fn must_reject(ctx: &mut Ctx, out: &mut Outcome, bytes: &[u8], class: &str, what: impl Fn() -> String, via_file: bool) {
    let b = load_bytes(ctx, bytes, via_file);
    match b {
        Built::Ok(_) => out.violate(P, class, what()),
        Built::Err(_) => ctx.counters.add("probe.rejected_with_error", 1),
        Built::Panic(_) => ctx.counters.add("probe.rejected_with_panic", 1),
    }
}

pub fn execute(ctx: &mut Ctx, s: &Scenario) -> Outcome {
    let mut out = Outcome::default();
    let mut r = Prng::new(s.aux_seed);
    let f = &s.facts;
    match s.mode.as_str() {
        "layout" => {
            for (i, spec) in s.replicas.iter().enumerate() {
                let what = format!("layout v{} file{}", version_of(spec.path), i);
                let pf = project_all(f, &spec.projs());
                let bytes = encode(f, version_of(spec.path), &spec.bin);
                set_hash(spec.hash);
                let b = load_bytes(ctx, &bytes, spec.via_file);
                ctx.fingerprints.insert(mix2(spec.bin.terms.mode as u64 | ((spec.bin.parents.mode as u64) << 4) | ((spec.bin.genes.mode as u64) << 8), spec.path as u64));
                out.mixin(tag(&b.describe()));
                match &b {
                    Built::Ok(o) => {
                        out.ontologies += 1;
                        let got = observe(o);
                        out.mixin(digest(&got));
                        let expected = obs_of(&pf, true);
                        report_diffs(&mut out, P, &format!("{what}|layout-decode-differs(v{})", version_of(spec.path)), &expected, &got, IcCmp::Ulp);
                        report_anomalies(&mut out, P, &what, &got);
                    }
                    Built::Err(e) | Built::Panic(e) => out.violate(P, format!("layout-rejected(v{})", version_of(spec.path)), format!("{what}: {} — {e}; {} bytes", b.describe(), bytes.len())),
                }
            }
            out.nontrivial = out.ontologies >= 2;
        }
        m if m.starts_with("realfile:") => {
            let name = &m["realfile:".len()..];
            let Some(rf) = crate::facts::real_files(false).iter().chain(crate::facts::real_files(name == "ontology.hpo").iter()).find(|x| x.name == name) else { return out };
            let version = rf.version;
            // facts come from the independent decoder; the library must decode the shipped file to their model
            let projs: Vec<Proj> = match version {
                1 => vec![Proj::V1],
                2 => vec![Proj::V2],
                _ => vec![],
            };
            let expected = obs_of(&project_all(&rf.facts, &projs), true);
            for via_file in [false, true] {
                set_hash(s.replicas[0].hash);
                let b = load_bytes(ctx, &rf.bytes, via_file);
                out.mixin(tag(&b.describe()));
                match &b {
                    Built::Ok(o) => {
                        out.ontologies += 1;
                        let got = observe(o);
                        out.mixin(digest(&got));
                        report_diffs(&mut out, P, &format!("shipped file tests/{name}|layout-decode-differs(v{version})"), &expected, &got, IcCmp::Ulp);
                    }
                    other => out.violate(P, format!("layout-rejected(v{version})"), format!("shipped file tests/{name}: {}", other.describe())),
                }
            }
            // the same facts re-encoded by the independent encoder under scheduled record orders
            for spec in &s.replicas {
                let bytes = encode(&rf.facts, version, &spec.bin);
                set_hash(spec.hash);
                let b = load_bytes(ctx, &bytes, false);
                match &b {
                    Built::Ok(o) => {
                        out.ontologies += 1;
                        let got = observe(o);
                        out.mixin(digest(&got));
                        report_diffs(&mut out, P, &format!("tests/{name} re-encoded in another record order|layout-decode-differs(v{version})"), &expected, &got, IcCmp::Ulp);
                    }
                    other => out.violate(P, format!("layout-rejected(v{version})"), format!("tests/{name} re-encoded: {}", other.describe())),
                }
            }
            // crash points on the shipped file: every section boundary +-1 and a seeded sample of offsets
            if rf.bytes.len() < 2_000_000 {
                let mut offs: Vec<usize> = vec![0, 1, 3, 4, 5, 7, 8, rf.bytes.len() - 1];
                for e in section_ends(&rf.bytes, version) {
                    for d in [-1i64, 0, 1] {
                        let o = e as i64 + d;
                        if o >= 0 && (o as usize) < rf.bytes.len() {
                            offs.push(o as usize);
                        }
                    }
                }
                for _ in 0..40 {
                    offs.push(r.usize_below(rf.bytes.len()));
                }
                for k in offs {
                    must_reject(ctx, &mut out, &rf.bytes[..k], "prefix-accepted", || format!("prefix of {k} bytes of tests/{name} ({} bytes) was returned as an ontology", rf.bytes.len()), false);
                }
                let mut ext = rf.bytes.clone();
                ext.extend_from_slice(&[0, 0, 0, 0]);
                must_reject(ctx, &mut out, &ext, "extension-accepted", || format!("tests/{name} followed by an empty section was returned as an ontology"), false);
            }
            ctx.counters.add("probe.shipped_files_checked", 1);
            out.nontrivial = true;
        }
        "truncate" | "disk" => {
            let spec = &s.replicas[0];
            let bytes = match bytes_for(ctx, f, spec) {
                Ok(b) => b,
                Err(b) => {
                    out.collateral.push(format!("could not produce the file: {}", b.describe()));
                    return out;
                }
            };
            let version = version_of(spec.path);
            out.mixin(tag(&format!("{}:{}", bytes.len(), crate::prng::tag(&String::from_utf8_lossy(&bytes)))));
            // the full file must load and equal the model
            set_hash(spec.hash);
            let full = load_bytes(ctx, &bytes, false);
            let pf = project_all(f, &spec.projs());
            let expected_full = obs_of(&pf, true);
            match &full {
                Built::Ok(o) => {
                    out.ontologies += 1;
                    let got = observe(o);
                    out.mixin(digest(&got));
                    report_diffs(&mut out, P, &format!("full file ({})|layout-decode-differs(v{version})", spec.label()), &expected_full, &got, IcCmp::Ulp);
                }
                other => {
                    out.violate(P, format!("layout-rejected(v{version})"), format!("full file ({}): {}", spec.label(), other.describe()));
                    return out;
                }
            }
            if s.mode == "truncate" {
                // every truncation offset 0..len-1
                for k in 0..bytes.len() {
                    let via_file = k % 97 == 13;
                    must_reject(ctx, &mut out, &bytes[..k], "prefix-accepted", || format!("prefix of {} bytes of a {}-byte v{} file ({}) was returned as an ontology", k, bytes.len(), version, spec.label()), via_file);
                }
                ctx.counters.add("fault.truncation_offsets_enumerated", bytes.len() as u64);
                ctx.counters.add("enumerated.files_all_offsets", 1);
                // suffix family
                let ends = section_ends(&bytes, version);
                let mut suffixes: Vec<(String, Vec<u8>)> = vec![];
                for n in 1..=8usize {
                    suffixes.push((format!("{n}x00"), vec![0u8; n]));
                    suffixes.push((format!("{n}xFF"), vec![0xFFu8; n]));
                    suffixes.push((format!("{n}xrandom"), (0..n).map(|_| r.next_u64() as u8).collect()));
                }
                if ends.len() >= 2 {
                    let last_start = ends[ends.len() - 2];
                    suffixes.push(("copy-of-last-section".into(), bytes[last_start..].to_vec()));
                    suffixes.push(("empty-section".into(), vec![0, 0, 0, 0]));
                    // last record of the last non-empty annotation / term section
                    let header = if version >= 2 { 8 } else { 0 };
                    for w in (0..ends.len()).rev() {
                        if w == 1 {
                            continue; // parent records carry no total length
                        }
                        let a = if w == 0 { header } else { ends[w - 1] };
                        let b = ends[w];
                        if b > a + 8 {
                            let body = &bytes[a + 4..b];
                            let mut p = 0;
                            let mut last = 0;
                            while p + 4 <= body.len() {
                                let l = u32::from_be_bytes([body[p], body[p + 1], body[p + 2], body[p + 3]]) as usize;
                                if l == 0 || p + l > body.len() {
                                    break;
                                }
                                last = p;
                                p += l;
                            }
                            suffixes.push(("copy-of-last-record".into(), body[last..].to_vec()));
                            break;
                        }
                    }
                }
                suffixes.push(("second-copy-of-file".into(), bytes.clone()));
                for (name, suf) in &suffixes {
                    let mut ext = bytes.clone();
                    ext.extend_from_slice(suf);
                    must_reject(ctx, &mut out, &ext, "extension-accepted", || format!("v{version} file ({}) followed by {name} ({} extra bytes) was returned as an ontology", spec.label(), suf.len()), name.starts_with('3'));
                }
                ctx.counters.add("fault.suffixes_appended", suffixes.len() as u64);
                // every unsupported value of the version byte, magic present
                if version >= 2 {
                    for v in 0..=255u8 {
                        if v == 2 || v == 3 {
                            continue;
                        }
                        let mut m = bytes.clone();
                        m[3] = v;
                        must_reject(ctx, &mut out, &m, "bad-version-accepted", || format!("version byte {v} with the HPO magic was accepted ({})", spec.label()), false);
                    }
                    ctx.counters.add("fault.version_bytes_enumerated", 254);
                    // the other supported value: recorded, not judged
                    let mut m = bytes.clone();
                    m[3] = if version == 2 { 3 } else { 2 };
                    match load_bytes(ctx, &m, false) {
                        Built::Ok(_) => ctx.counters.add("probe.other_supported_version_byte_accepted", 1),
                        _ => ctx.counters.add("probe.other_supported_version_byte_rejected", 1),
                    }
                } else {
                    // layout v1 has no header: the magic and any version byte other than 2 and 3 in front of a v1 body
                    // announce a version no loader supports (1 included)
                    for v in 0..=255u8 {
                        if v == 2 || v == 3 {
                            continue;
                        }
                        let mut m = vec![0x48, 0x50, 0x4f, v];
                        m.extend_from_slice(&bytes);
                        must_reject(ctx, &mut out, &m, "bad-version-accepted", || format!("the HPO magic and version byte {v} in front of a v1 body were accepted ({})", spec.label()), false);
                    }
                    ctx.counters.add("fault.version_bytes_enumerated", 254);
                }
                out.nontrivial = true;
            } else {
                // SimDisk: crash at every syscall index
                let Some(dspec) = &s.disk else { return out };
                let old_f = older(f, &mut r);
                let old_bytes: Option<Vec<u8>> = dspec.old_from.and_then(|i| s.replicas.get(i)).map(|os| encode(&old_f, version_of(os.path), &os.bin));
                let old_expected = dspec.old_from.and_then(|i| s.replicas.get(i)).map(|os| {
                    let mut projs = os.projs();
                    projs.push(Proj::Trunc255);
                    obs_of(&project_all(&old_f, &projs), true)
                });
                let total = disk::program(dspec, bytes.len()).len();
                for k in 0..=total {
                    let mut d = dspec.clone();
                    d.crash_at = if k == total { None } else { Some(k) };
                    d.durable_bits = mix2(dspec.durable_bits, k as u64);
                    let img = disk::run(&d, &bytes, old_bytes.as_deref());
                    ctx.step(img.syscalls_done as u64 + 1);
                    ctx.counters.add(&format!("disk.image.{:?}", img.class), 1);
                    if k < total {
                        ctx.counters.add("fault.crash_points", 1);
                    }
                    out.mixin(tag(&format!("{:?}{}", img.class, img.bytes.as_ref().map_or(0, |b| b.len()))));
                    ctx.ev(|| format!("disk: W{} crash after {k}/{total} syscalls [{}] -> {:?} image, {} bytes", d.writer, img.trace.last().cloned().unwrap_or_default(), img.class, img.bytes.as_ref().map_or(0, |b| b.len())));
                    let what = || format!("writer W{} chunk {} block {} fsync {} crash after {}/{} syscalls -> {:?} image of {} bytes (intended {}, previous {:?})", d.writer, d.chunk, d.block, d.fsync, k, total, img.class, img.bytes.as_ref().map_or(0, |b| b.len()), bytes.len(), old_bytes.as_ref().map(|o| o.len()));
                    let Some(ib) = &img.bytes else {
                        // no file: the reader must report an error
                        let p = ctx.fresh_path("absent");
                        let _ = std::fs::remove_file(&p);
                        match guarded(|| Ontology::from_binary(&p)) {
                            Ok(Err(_)) => ctx.counters.add("probe.absent_file_refused", 1),
                            Ok(Ok(_)) => out.violate(P, "absent-file-accepted", what()),
                            Err(_) => ctx.counters.add("probe.absent_file_panicked", 1),
                        }
                        continue;
                    };
                    if img.class == ImageClass::Torn {
                        // C08 says nothing about torn images (holes, mixed old/new blocks), and feeding them to the
                        // library is not safe for the harness: a zero-filled block in the term section makes the term
                        // walk spin forever and mixed parent records can form a cycle that overflows the stack in
                        // connect_all_terms (both seen, see DESIGN §10). They are classified and counted, not loaded.
                        ctx.counters.add(if torn_would_not_terminate(ib) { "probe.torn_image_with_zero_length_term_record" } else { "probe.torn_image_not_loaded" }, 1);
                        continue;
                    }
                    set_hash(spec.hash);
                    let b = load_bytes(ctx, ib, true);
                    match img.class {
                        ImageClass::Prefix => {
                            if let Built::Ok(_) = b {
                                out.violate(P, "prefix-accepted", what());
                            }
                        }
                        ImageClass::Extended => {
                            if let Built::Ok(_) = b {
                                out.violate(P, "extension-accepted", what());
                            }
                        }
                        ImageClass::Full => match &b {
                            Built::Ok(o) => {
                                let got = observe(o);
                                report_diffs(&mut out, P, &format!("{}|layout-decode-differs(v{version})", what()), &expected_full, &got, IcCmp::Ulp);
                            }
                            other => out.violate(P, "full-image-rejected", format!("{}: {}", what(), other.describe())),
                        },
                        ImageClass::Old => match (&b, &old_expected) {
                            (Built::Ok(o), Some(e)) => {
                                let got = observe(o);
                                report_diffs(&mut out, P, &format!("{}|old-image-decode-differs", what()), e, &got, IcCmp::Ulp);
                            }
                            (other, _) => out.violate(P, "old-image-rejected", format!("{}: {}", what(), other.describe())),
                        },
                        ImageClass::Torn | ImageClass::Absent => {}
                    }
                }
                out.nontrivial = true;
            }
        }
        _ => {}
    }
    out.fingerprint = mix2(
        mix2(tag(P), tag(&s.mode)),
        tag(&s.replicas.first().map(|x| x.label()).unwrap_or_default()) ^ ((s.facts.terms.len().min(63) as u64) << 8) ^ (s.disk.as_ref().map_or(0, |d| (d.writer as u64) | ((d.chunk as u64) << 4) | ((d.block as u64) << 20) | (u64::from(d.fsync) << 40) | (u64::from(d.old_from.is_some()) << 41)) << 16),
    );
    let _ = build;
    out
}

//! The "replica family": C01, C02, C03, C09, C10, C16, C19 share one world —
//! several replicas of one fact set over different paths and schedules — and
//! differ in the lens (which observations they own), generator bias and extra oracles.

use crate::facts::{gen_facts, project_all, FactSet, GenCfg};
use crate::model::{facts_of_obs, obs_of};
use crate::obs::{diff, digest, observe, owners, Diff, IcCmp, Obs};
use crate::prng::{mix2, tag, Prng};
use crate::replica::{build, set_hash, Built, Ctx, PathKind, ReplicaSpec, ALL_PATHS};
use crate::scenario::{Outcome, Scenario, SubSpec};
use hpo::Ontology;

pub fn lens_owns(prop: &str, field: &str) -> bool {
    match prop {
        "C16" | "C09" | "C07" | "C08" | "C15" | "C14x" => true,
        _ => {
            let f = field.strip_prefix("anomaly:").unwrap_or(field);
            owners(f).contains(&prop)
        }
    }
}

fn parse_ids(s: &str) -> Option<Vec<u32>> {
    let t = s.trim().strip_prefix('[')?.strip_suffix(']')?;
    if t.trim().is_empty() {
        return Some(vec![]);
    }
    t.split(',').map(|x| x.trim().parse::<u32>().ok()).collect()
}

/// violation class for a differing field; refines id-list fields into missing / extra
pub fn class_of(d: &Diff) -> String {
    if let (Some(a), Some(b)) = (parse_ids(&d.a), parse_ids(&d.b)) {
        let missing = a.iter().any(|x| !b.contains(x));
        let extra = b.iter().any(|x| !a.contains(x));
        let tag = match (missing, extra) {
            (true, true) => "missing+extra",
            (true, false) => "missing",
            (false, true) => "extra",
            _ => "order/multiplicity",
        };
        format!("{}({})", d.field, tag)
    } else {
        d.field.clone()
    }
}

/// Report every owned difference between `expected` (a) and `got` (b)
pub fn report_diffs(out: &mut Outcome, prop: &str, what: &str, expected: &Obs, got: &Obs, icm: IcCmp) {
    let (what, kind) = what.split_once('|').unwrap_or((what, "vs-model"));
    for d in diff(expected, got, icm) {
        if lens_owns(prop, &d.field) {
            out.violate(prop, format!("{kind}:{}", class_of(&d)), format!("{what}: {} [{}] expected {} got {}", d.field, d.key, crate::obs::clip(&d.a), crate::obs::clip(&d.b)));
        } else {
            if out.collateral.len() < 6 {
                out.collateral.push(format!("{what}: {} [{}]", d.field, d.key));
            }
        }
    }
}

pub fn report_anomalies(out: &mut Outcome, prop: &str, what: &str, got: &Obs) {
    for (owner, msg) in &got.anomalies {
        if lens_owns(prop, owner) {
            out.violate(prop, format!("anomaly:{owner}"), format!("{what}: {msg}"));
        } else if out.collateral.len() < 6 {
            out.collateral.push(format!("{what}: anomaly {owner}: {msg}"));
        }
    }
}

/// child_of / parent_of must answer exactly membership in the model closure (C01)
pub fn check_pairs(out: &mut Outcome, prop: &str, what: &str, o: &Ontology, f: &FactSet, r: &mut Prng) {
    let anc = crate::model::closure(f);
    let ids: Vec<u32> = f.terms.iter().map(|t| t.id).collect();
    let n = ids.len();
    let mut one = |a: u32, b: u32, out: &mut Outcome| {
        let (Some(ta), Some(tb)) = (o.hpo(a), o.hpo(b)) else { return };
        let want = anc[&a].contains(&b);
        let c = ta.child_of(&tb);
        let p = tb.parent_of(&ta);
        if c != want {
            out.violate(prop, "child_of", format!("{what}: {a}.child_of({b}) = {c}, closure says {want}"));
        }
        if p != want {
            out.violate(prop, "parent_of", format!("{what}: {b}.parent_of({a}) = {p}, closure says {want}"));
        }
    };
    if n <= 40 {
        for &a in &ids {
            for &b in &ids {
                one(a, b, out);
            }
        }
    } else {
        for _ in 0..2000 {
            let a = ids[r.usize_below(n)];
            let b = ids[r.usize_below(n)];
            one(a, b, out);
        }
    }
}

pub fn run_sub(ctx: &mut Ctx, src: &Ontology, s: &SubSpec) -> Built {
    let Some(root) = src.hpo(s.root) else { return Built::Err("harness: root not in source".into()) };
    let leaves: Vec<hpo::HpoTerm> = s.leaves.iter().filter_map(|l| src.hpo(*l)).collect();
    set_hash(s.hash);
    ctx.step(1 + leaves.len() as u64);
    ctx.counters.add("sub_ontology_calls", 1);
    ctx.ev(|| format!("sub_ontology(root={}, leaves={:?}) under hash {:?}", s.root, s.leaves, s.hash));
    let r = crate::obs::guarded(|| src.sub_ontology(root, leaves));
    ctx.counters.add("hash.maps_created", hpo::verif::maps_created());
    match r {
        Ok(Ok(o)) => Built::Ok(Box::new(o)),
        Ok(Err(e)) => Built::Err(format!("{e:?}")),
        Err(p) => Built::Panic(p),
    }
}

/// root / leaves for a sub-ontology request. `allow_bad`: sometimes include a leaf outside root's subtree.
pub fn draw_sub(r: &mut Prng, f: &FactSet, source: usize, allow_bad: bool) -> Option<SubSpec> {
    if f.terms.is_empty() {
        return None;
    }
    let anc = crate::model::closure(f);
    let ids: Vec<u32> = f.terms.iter().map(|t| t.id).collect();
    // roots with many descendants are more interesting
    let mut root = *r.pick(&ids);
    for _ in 0..3 {
        let cand = *r.pick(&ids);
        let nd = |x: u32| ids.iter().filter(|i| anc[i].contains(&x)).count();
        if nd(cand) > nd(root) {
            root = cand;
        }
    }
    if f.has_term(118) && r.chance(1, 4) {
        root = 118;
    }
    if f.has_term(1) && r.chance(1, 5) {
        root = 1;
    }
    let desc: Vec<u32> = ids.iter().copied().filter(|i| anc[i].contains(&root)).collect();
    let mut leaves: Vec<u32> = vec![];
    let nl = r.urange(1, 4);
    for _ in 0..nl {
        if !desc.is_empty() && !r.chance(1, 8) {
            leaves.push(*r.pick(&desc));
        } else {
            leaves.push(root);
        }
    }
    // a leaf that is an ancestor of another leaf
    if r.chance(1, 3) {
        if let Some(&l) = leaves.first() {
            let between: Vec<u32> = anc[&l].iter().copied().filter(|a| anc[a].contains(&root)).collect();
            if !between.is_empty() {
                leaves.push(*r.pick(&between));
            }
        }
    }
    if r.chance(1, 3) {
        let d = *r.pick(&leaves);
        let pos = r.usize_below(leaves.len() + 1);
        leaves.insert(pos, d);
    }
    if allow_bad && r.chance(1, 8) {
        let outside: Vec<u32> = ids.iter().copied().filter(|i| *i != root && !anc[i].contains(&root)).collect();
        if !outside.is_empty() {
            let pos = r.usize_below(leaves.len() + 1);
            leaves.insert(pos, *r.pick(&outside));
        }
    }
    r.shuffle(&mut leaves);
    let hm = if r.chance(3, 5) { 0 } else { r.range(1, 3) as u8 };
    Some(SubSpec { source, root, leaves, hash: (hm, r.next_u64()) })
}

/// Size thresholds of the library's own limits: more than 65 535 terms (C10) / more than 65 535 records of a kind (C03)
fn gen_threshold(prop: &str, r: &mut Prng, seed: u64, run: u64, many_terms: bool) -> Scenario {
    let mut facts = FactSet::default();
    if prop == "C10" {
        let n = r.urange(65_530, 66_200);
        facts = crate::facts::many_terms_facts(r, n, false);
    } else if many_terms {
        // once per batch: more than 65 535 terms over the builder, binary and text transports
        let n = r.urange(65_537, 65_700);
        facts = crate::facts::many_terms_facts(r, n, true);
        let mut replicas = vec![];
        let paths: &[PathKind] = if prop == "C09" { &[PathKind::Text, PathKind::Builder] } else { &[PathKind::Builder, PathKind::BinV3, PathKind::Text] };
        for p in paths {
            let mut sp = ReplicaSpec::draw(r, *p);
            sp.defaults = true;
            if sp.hash.0 == 3 {
                sp.hash.0 = 0;
            }
            sp.dup = crate::channel::Dup::none();
            sp.text.dup = crate::channel::Dup::none();
            sp.via_file = false;
            replicas.push(sp);
        }
        return Scenario { prop: prop.to_string(), seed, run, mode: "size-threshold".into(), facts, replicas, aux_seed: r.next_u64(), ..Default::default() };
    } else {
        // a handful of terms, N just below / above u16::MAX for one kind; the library documents an error above it
        for id in [1u32, 118, 200, 300] {
            facts.terms.push(crate::facts::TermFact { id, name: format!("t{id}"), obsolete: false, replacement: None });
        }
        facts.isa = vec![(118, 1), (200, 118), (300, 200)];
        let n = [65_535usize, 65_536, 65_540, 70_000][(run / 6_000) as usize % 4];
        let _ = r.next_u64();
        let kind = r.usize_below(3);
        for j in 0..n {
            let t = match j % 50 {
                0 => 200,
                1 | 2 => 300,
                _ => 118,
            };
            let rec = crate::facts::Rec { id: j as u32 + 1, name: format!("r{j}"), terms: vec![t] };
            match kind {
                0 => facts.genes.push(rec),
                1 => facts.omim.push(rec),
                _ => facts.orpha.push(rec),
            }
        }
    }
    let mut spec = ReplicaSpec::draw(r, PathKind::Builder);
    spec.defaults = prop != "C10";
    spec.dup = crate::channel::Dup::none();
    if spec.hash.0 == 3 {
        spec.hash.0 = 0;
    }
    let mut replicas = vec![spec];
    if prop == "C10" {
        let mut s2 = ReplicaSpec::draw(r, PathKind::Builder);
        s2.defaults = false;
        s2.hash.0 = 0;
        replicas.push(s2);
    }
    Scenario { prop: prop.to_string(), seed, run, mode: "size-threshold".into(), facts, replicas, aux_seed: r.next_u64(), ..Default::default() }
}

pub fn gen_replicas(prop: &str, r: &mut Prng, seed: u64, run: u64, thorough: bool) -> Scenario {
    let forced = std::env::var("HPOSIM_FORCE_FACTS").map_or(false, |v| v == "threshold");
    // at fixed run indices, so that every batch contains them whatever the seed
    let period = if thorough { 60_000 } else { 6_000 };
    // (offset by the batch index so that the heavy runs land on different workers)
    if (prop == "C10" || prop == "C03") && (run % period == period / 2 + (run / period) % 16 || forced) {
        return gen_threshold(prop, r, seed, run, false);
    }
    if matches!(prop, "C01" | "C16" | "C09" | "C02") && (run % (period * 4) == period * 2 + 1 || forced) {
        return gen_threshold(prop, r, seed, run, true);
    }
    // (C03 and C19 as well: information content and classification of terms stored beyond position 65 535)
    if matches!(prop, "C03" | "C19") && run % (period * 4) == period * 2 + 1 {
        return gen_threshold(prop, r, seed, run, true);
    }
    let mut cfg = GenCfg::draw(r);
    // over-long names (binary transports cut them at 255 bytes, which the Trunc255 projection models) on a share of the runs
    let long_names = r.chance(1, 8);
    cfg.names = if long_names { 3 } else { cfg.names.min(2) };
    match prop {
        "C01" => {
            cfg.max_recs = [r.usize_below(3), r.usize_below(2), r.usize_below(2)];
            if r.chance(1, 12) {
                cfg.n_terms = r.urange(45, 300);
            }
            cfg.names = if long_names { 3 } else { 0 };
        }
        "C02" | "C03" => {
            cfg.max_recs = [r.urange(1, 14), r.urange(0, 10), r.urange(0, 8)];
            if prop == "C03" && r.chance(1, 6) {
                // kinds with zero records
                cfg.max_recs[r.usize_below(3)] = 0;
            }
            if prop == "C03" && r.chance(1, 10) {
                // larger populations: N in the hundreds, terms linked to all records
                cfg.max_recs[r.usize_below(3)] = r.urange(40, 400);
                cfg.n_terms = cfg.n_terms.min(20);
            }
            cfg.rec_no_terms = r.chance(1, 2);
            cfg.names = if long_names { 3 } else { cfg.names.min(1) };
            if r.chance(1, 15) {
                // annotated terms with more than 30 ancestors
                cfg.n_terms = r.urange(45, 200);
                cfg.shape = *r.pick(&[0u8, 0, 2, 3]);
            }
        }
        "C19" => {
            cfg.std_roots = true;
            cfg.names = if long_names { 3 } else { 0 };
        }
        "C09" => {
            cfg.std_roots = true;
        }
        "C10" => {
            cfg.id_space = if r.chance(1, 2) { 2 } else { cfg.id_space };
        }
        _ => {}
    }
    if thorough && r.chance(1, 12) {
        // thorough tier: larger graphs (ancestor sets beyond the 30-id inline storage, deep recursion)
        cfg.n_terms = r.urange(60, 400);
    }
    if prop == "C16" && r.chance(1, 2) {
        // facts every transport can carry, so that all replicas are pairwise comparable
        cfg.obsolete = false;
        cfg.rec_no_terms = false;
        if r.chance(1, 2) {
            cfg.max_recs[2] = 0;
        }
    }
    let mut facts = gen_facts(r, &cfg);
    // realistic configuration: the example ontology shipped with the repository (decoded by the independent
    // decoder), and in the thorough tier occasionally the full ontology (19 484 terms)
    if r.chance(1, 300) {
        if let Some(f) = crate::facts::real_files(false).first() {
            facts = f.facts.clone();
        }
    } else if thorough && r.chance(1, 150_000) {
        if let Some(f) = crate::facts::real_files(true).first() {
            facts = f.facts.clone();
        }
    }
    // debugging aid (unset in every registered command): force a shipped file as the fact source
    match std::env::var("HPOSIM_FORCE_FACTS").as_deref() {
        Ok("big") => {
            if let Some(f) = crate::facts::real_files(true).first() {
                facts = f.facts.clone();
            }
        }
        Ok("example") => {
            if let Some(f) = crate::facts::real_files(false).first() {
                facts = f.facts.clone();
            }
        }
        _ => {}
    }
    let huge = facts.terms.len() > 5000;
    let mut drop_terms = vec![];
    if prop == "C19" && r.chance(1, 4) {
        // fault: the fact of a root term (and everything mentioning it) is lost
        let victim = if r.chance(1, 2) { 1 } else { 118 };
        facts.remove_term(victim);
        drop_terms.push(victim);
    }
    let std = facts.has_std_roots();
    let mut replicas: Vec<ReplicaSpec> = vec![];
    let k = r.urange(2, 5);
    let mut paths: Vec<PathKind> = vec![];
    if prop == "C09" {
        paths.extend([PathKind::Text, PathKind::Builder, PathKind::BinV3]);
        if r.chance(2, 3) {
            paths.push(PathKind::TextTransitive);
        }
        if r.chance(1, 2) {
            paths.push(PathKind::Text);
        }
    } else if std || prop == "C19" {
        for _ in 0..k {
            paths.push(*r.pick(&ALL_PATHS));
        }
        if prop == "C16" && r.chance(1, 2) {
            // same path twice under different schedules
            let p = paths[0];
            paths.push(p);
        }
    } else {
        for _ in 0..k.min(3) {
            paths.push(PathKind::Builder);
        }
    }
    if huge {
        // the full ontology: two replicas over the cheap transports only (a transitive text rendering would be
        // millions of rows), so that a run stays far below the watchdog limit
        paths = vec![PathKind::Builder, PathKind::BinV3];
    }
    for p in paths {
        let mut s = ReplicaSpec::draw(r, p);
        if huge && s.hash.0 == 3 {
            // the all-keys-collide schedule is quadratic in the set size: not with 8 000 records per term
            s.hash.0 = 0;
        }
        if p == PathKind::Builder {
            s.defaults = if prop == "C19" { true } else { std && !r.chance(1, 5) };
            s.alt_names = matches!(prop, "C02" | "C10" | "C03" | "C01" | "C19") && r.chance(1, 3);
        }
        if matches!(p, PathKind::Text | PathKind::TextTransitive) {
            // one text replica in eight: hp.obo without a header block (derived, not drawn: the other draws keep their values)
            s.text.no_obo_header = mix2(s.text.ign_seed, 0x0B0) % 8 == 0;
        }
        if p == PathKind::TextTransitive && mix2(s.text.ign_seed, 0x7A) % 3 == 0 {
            // a gene file that is not closed under ancestors
            s.text.trans_partial = Some(mix2(s.text.ign_seed, 0x7B));
        }
        replicas.push(s);
    }
    if !huge && !replicas.iter().any(|x| x.uses_text()) && r.chance(1, 3) {
        // no text transport in this run: names may carry surrounding blanks
        facts.pad_some_names(r);
    }
    let mut sub = if matches!(prop, "C01" | "C02" | "C03") && r.chance(1, 2) { draw_sub(r, &facts, 0, false) } else { None };
    if prop == "C02" && sub.is_some() && r.chance(1, 3) {
        // a request that retains modifier and phenotype terms alike, with records annotated to both kinds of term
        if let Some(d) = crate::model::defaults(&facts) {
            if !d.modifier.is_empty() {
                let anc = crate::model::closure(&facts);
                let m = *r.pick(&d.modifier);
                let below: Vec<u32> = facts.terms.iter().map(|t| t.id).filter(|i| *i == 118 || anc[i].contains(&118)).collect();
                let p = *r.pick(&below);
                for k in crate::facts::KINDS {
                    if !facts.recs(k).is_empty() {
                        let i = r.usize_below(facts.recs(k).len());
                        let rec = &mut facts.recs_mut(k)[i];
                        rec.terms.push(m);
                        rec.terms.push(p);
                    }
                }
                facts.normalise();
                if let Some(sb) = &mut sub {
                    sb.root = 1;
                    sb.leaves = vec![m, p];
                    if r.chance(1, 2) {
                        sb.leaves.reverse();
                    }
                }
            }
        }
    }
    // C10 thorough: on a sample of runs every one of the 10^7 ids of the id space is looked up
    let mode = if prop == "C10" && thorough && r.chance(1, 2000) { "full-sweep".to_string() } else { String::new() };
    Scenario { prop: prop.to_string(), seed, run, mode, facts, replicas, sub, drop_terms, aux_seed: r.next_u64(), ..Default::default() }
}

pub fn schedule_fingerprint(s: &Scenario) -> u64 {
    // coarse on purpose: which paths, which order modes per phase, hash mode, duplication on/off,
    // file or memory, size bucket of the fact set, shape of the sub-ontology request, dropped facts
    let mut parts: Vec<u64> = s
        .replicas
        .iter()
        .map(|rp| mix2(tag(&rp.label()), rp.term_order.mode as u64 | ((rp.link_order.mode as u64) << 4) | ((rp.ann_order.mode as u64) << 8) | (u64::from(rp.hash.0) << 12) | (u64::from(rp.dup.permille > 0) << 16) | (u64::from(rp.via_file) << 17)))
        .collect();
    parts.sort_unstable();
    let mut h = tag(&s.prop) ^ tag(&s.mode);
    for p in parts {
        h = mix2(h, p);
    }
    let n = s.facts.terms.len();
    h = mix2(h, (n / 8).min(15) as u64);
    h = mix2(h, s.sub.as_ref().map_or(0, |x| 1 + x.leaves.len().min(4) as u64 + (u64::from(x.hash.0) << 8)));
    h = mix2(h, s.drop_terms.len() as u64);
    h
}

pub fn nontrivial_spec(rp: &ReplicaSpec) -> bool {
    use crate::channel::Mode;
    let canon = |m: Mode| m == Mode::IdAsc;
    !(canon(rp.term_order.mode) && canon(rp.link_order.mode) && canon(rp.ann_order.mode)) || rp.dup.permille > 0 || rp.hash.0 != 1
}

pub fn exec_replicas(ctx: &mut Ctx, s: &Scenario) -> Outcome {
    let prop = s.prop.as_str();
    let mut out = Outcome::default();
    let mut r = Prng::new(s.aux_seed);
    let f = &s.facts;
    let std = f.has_std_roots();
    let mut built: Vec<(Built, Option<Obs>, FactSet)> = vec![];
    for (i, spec) in s.replicas.iter().enumerate() {
        let what = format!("replica{}={}", i, spec.label());
        let pf = project_all(f, &spec.projs());
        let b = build(ctx, f, spec);
        let needs_roots = spec.has_defaults();
        if needs_roots && !std {
            // C19: a missing root must be refused with an error
            match &b {
                Built::Ok(_) => {
                    if prop == "C19" {
                        out.violate(prop, "missing-root-accepted", format!("{what}: built although {:?} lost its root fact", s.drop_terms));
                    }
                }
                Built::Err(_) => ctx.counters.add("probe.root_missing_refused", 1),
                Built::Panic(p) => {
                    // "fails with an error": a panic is not an error return
                    if prop == "C19" && spec.path == PathKind::Builder {
                        out.violate(prop, "missing-root-panics", format!("{what}: {p}"));
                    } else {
                        ctx.counters.add("probe.root_missing_panicked", 1);
                    }
                }
            }
            out.mixin(tag(&b.describe()));
            built.push((b, None, pf));
            continue;
        }
        match &b {
            Built::Ok(o) => {
                out.ontologies += 1;
                let mut got = observe(o);
                out.mixin(digest(&got));
                if spec.omits_version() {
                    // no data-version anywhere in the files: the release version is not stated by the property
                    ctx.counters.add("probe.text_without_data_version", 1);
                    got.version = format!("{:0>4}-{:0>2}-{:0>2}", pf.version.0, pf.version.1, pf.version.2);
                }
                if s.mode == "size-threshold" {
                    ctx.counters.add("probe.size_threshold_ontologies", 1);
                }
                ctx.counters.add("probe.spilled_ancestor_sets", u64::from(got.probes.spilled_ancestor_sets));
                ctx.counters.add("probe.unsorted_groups", u64::from(got.probes.unsorted_groups));
                let expected = obs_of(&pf, spec.has_defaults());
                report_diffs(&mut out, prop, &format!("{what}|vs-model"), &expected, &got, IcCmp::Ulp);
                report_anomalies(&mut out, prop, &what, &got);
                if prop == "C01" {
                    check_pairs(&mut out, prop, &what, o, &pf, &mut r);
                }
                if prop == "C03" {
                    check_ic_invariants(&mut out, prop, &what, &got);
                }
                if prop == "C19" && spec.has_defaults() {
                    // reach probes for the classification shapes
                    if got.terms.iter().any(|t| t.is_modifier && t.categories.len() >= 2) {
                        ctx.counters.add("probe.term_below_modifier_and_another_category", 1);
                    }
                    if got.categories.iter().any(|c| got.terms.iter().any(|t| t.id == *c && t.categories.len() >= 2)) {
                        ctx.counters.add("probe.category_below_another_category", 1);
                    }
                    if !pf.isa.contains(&(118, 1)) {
                        ctx.counters.add("probe.pheno_root_not_a_child_of_root", 1);
                    }
                    // a history on one ontology value: both groups are overwritten through the public `*_mut()` accessors, then
                    // the default setters are called again (in either order) — the same classification as after building
                    // (built a second time rather than cloned: cloning copies the whole 10^7-slot id table)
                    if let Some(mut o2) = if r.chance(1, 3) { build(ctx, f, spec).into_ok() } else { None } {
                        let ids: Vec<u32> = pf.terms.iter().map(|t| t.id).collect();
                        let mut junk = |r: &mut Prng| -> Vec<u32> {
                            let mut v: Vec<u32> = (0..r.urange(0, 3)).map(|_| *r.pick(&ids)).collect();
                            v.sort_unstable();
                            v.dedup();
                            v
                        };
                        *o2.modifier_mut() = hpo::term::HpoGroup::from(junk(&mut r));
                        *o2.categories_mut() = hpo::term::HpoGroup::from(junk(&mut r));
                        let modifier_first = r.chance(1, 2);
                        let res = crate::obs::guarded(|| {
                            if modifier_first {
                                o2.set_default_modifier().and_then(|()| o2.set_default_categories())
                            } else {
                                o2.set_default_categories().and_then(|()| o2.set_default_modifier())
                            }
                        });
                        ctx.counters.add("probe.default_setters_called_again", 1);
                        match res {
                            Ok(Ok(())) => {
                                let got2 = observe(&o2);
                                report_diffs(&mut out, prop, &format!("{what}|after *_mut() and the default setters again|vs-model"), &expected, &got2, IcCmp::Ulp);
                            }
                            Ok(Err(e)) => out.violate(prop, "default-setters-refused", format!("{what}: set_default_* on the finished ontology returned {e:?}")),
                            Err(p) => out.violate(prop, "default-setters-panic", format!("{what}: set_default_* on the finished ontology panicked: {p}")),
                        }
                    }
                }
                if prop == "C10" {
                    crate::props::c10::check_lookups(ctx, &mut out, &what, o, &pf, &mut r, s.mode == "full-sweep" && i == 0);
                    // a copy of the ontology value answers every lookup like the original (sampled: copying the id table is slow)
                    if r.chance(1, 40) && pf.terms.len() < 5000 {
                        let copy: Ontology = (**o).clone();
                        ctx.counters.add("probe.ontology_cloned", 1);
                        let mut got_c = observe(&copy);
                        if spec.omits_version() {
                            got_c.version = got.version.clone();
                        }
                        for d in crate::obs::diff_opts(&got, &got_c, IcCmp::Bits, true) {
                            out.violate(prop, format!("clone-differs:{}", class_of(&d)), format!("{what}: clone() [{}] {} {} vs {}", d.field, d.key, crate::obs::clip(&d.a), crate::obs::clip(&d.b)));
                        }
                    }
                }
                built.push((b, Some(got), pf));
            }
            Built::Err(e) | Built::Panic(e) => {
                out.mixin(tag(&b.describe()));
                if s.mode == "size-threshold" && prop != "C03" {
                    // every fact of this scenario is valid and the builder looks its terms up by id: a refusal here
                    // is a lookup that did not find an added term
                    out.violate(prop, "valid-facts-refused(size-threshold)", format!("{what}: {} — {e}", b.describe()));
                } else if lens_owns(prop, "replica-failed") {
                    out.violate(prop, format!("replica-failed({:?})", spec.path), format!("{what}: {} — {e}", b.describe()));
                } else {
                    if s.mode == "size-threshold" {
                        ctx.counters.add("probe.size_threshold_build_refused", 1);
                    }
                    out.collateral.push(format!("{what}: construction failed: {}", b.describe()));
                }
                built.push((b, None, pf));
            }
        }
    }
    // cross-replica: replicas whose transports carry the same facts must be observationally identical
    if matches!(prop, "C16" | "C09") {
        for i in 0..built.len() {
            for j in (i + 1)..built.len() {
                let (Some(a), Some(b)) = (&built[i].1, &built[j].1) else { continue };
                if built[i].2 == built[j].2 && s.replicas[i].has_defaults() == s.replicas[j].has_defaults() {
                    ctx.counters.add("probe.comparable_replica_pairs", 1);
                    let what = format!("replica{}={} vs replica{}={}|cross", i, s.replicas[i].label(), j, s.replicas[j].label());
                    for d in crate::obs::diff_opts(a, b, IcCmp::Bits, true) {
                        out.violate(prop, format!("replicas-differ:{}", class_of(&d)), format!("{what}: {} [{}] {} vs {}", d.field, d.key, crate::obs::clip(&d.a), crate::obs::clip(&d.b)));
                    }
                }
            }
        }
    }
    // sub-ontology replica: intrinsic closure / inheritance / IC checks on whatever it retained
    if let Some(sub) = &s.sub {
        if let Some((Built::Ok(src), _, _)) = built.get(sub.source) {
            let b = run_sub(ctx, src, sub);
            out.mixin(tag(&b.describe()));
            if let Built::Ok(o) = &b {
                out.ontologies += 1;
                let got = observe(o);
                out.mixin(digest(&got));
                let own = facts_of_obs(&got);
                let expected = obs_of(&own, false);
                let what = format!("sub_ontology(root={}, leaves={:?}) of replica{}", sub.root, sub.leaves, sub.source);
                report_diffs(&mut out, prop, &format!("{what}|intrinsic"), &expected, &got, IcCmp::Ulp);
                report_anomalies(&mut out, prop, &what, &got);
                if prop == "C01" {
                    check_pairs(&mut out, prop, &what, o, &own, &mut r);
                }
                if prop == "C03" {
                    check_ic_invariants(&mut out, prop, &what, &got);
                }
                if prop == "C02" {
                    // records stay direct on this path too: a kept record lists exactly the retained subset of the
                    // terms it is directly annotated with in the source (which records are kept is C14's business)
                    let src_facts = &built[sub.source].2;
                    let retained: std::collections::BTreeSet<u32> = got.terms.iter().map(|t| t.id).collect();
                    for (k, recs) in [(crate::facts::Kind::Gene, &got.genes), (crate::facts::Kind::Omim, &got.omim), (crate::facts::Kind::Orpha, &got.orpha)] {
                        for g in recs.iter() {
                            if let Some(srec) = src_facts.recs(k).iter().find(|x| x.id == g.id) {
                                let want: Vec<u32> = srec.terms.iter().copied().filter(|t| retained.contains(t)).collect();
                                let mut have = g.terms.clone();
                                have.sort_unstable();
                                if have != want {
                                    out.violate(prop, format!("sub:record-not-direct({k:?})"), format!("{what}: {k:?} {} lists {:?}, the retained subset of its direct terms is {:?}", g.id, g.terms, want));
                                }
                            } else {
                                out.violate(prop, format!("sub:foreign-record({k:?})"), format!("{what}: {k:?} {} is not a record of the source", g.id));
                            }
                        }
                    }
                }
            }
        }
    }
    out.nontrivial = out.ontologies >= 2 && s.replicas.iter().any(nontrivial_spec);
    out.fingerprint = schedule_fingerprint(s);
    out
}

/// C03 invariants on a reached state: finite, >= 0, non-decreasing from ancestor to descendant among annotated terms
pub fn check_ic_invariants(out: &mut Outcome, prop: &str, what: &str, o: &Obs) {
    let by_id: std::collections::BTreeMap<u32, &crate::obs::TermObs> = o.terms.iter().map(|t| (t.id, t)).collect();
    for t in &o.terms {
        let ns = [t.genes.len(), t.omim.len(), t.orpha.len()];
        for k in 0..3 {
            let v = f32::from_bits(t.ic[k]);
            if !v.is_finite() || v < 0.0 {
                out.violate(prop, "ic-negative-or-nonfinite", format!("{what}: term {} kind {k}: {v}", t.id));
            }
            if ns[k] == 0 && v != 0.0 {
                out.violate(prop, "ic-value", format!("{what}: term {} kind {k}: n = 0 but ic = {v}", t.id));
            }
            if ns[k] > 0 {
                for a in &t.all_parents {
                    if let Some(pa) = by_id.get(a) {
                        let na = [pa.genes.len(), pa.omim.len(), pa.orpha.len()][k];
                        let va = f32::from_bits(pa.ic[k]);
                        if na > 0 && va > v {
                            out.violate(prop, "ic-monotone", format!("{what}: kind {k}: ancestor {} has ic {va} > descendant {} ic {v}", a, t.id));
                        }
                    }
                }
            }
        }
    }
}

//! The delivery channel: order modes, duplication. Orders are *keyed*: the position of a
//! fact depends only on (mode, seed, the fact itself), so removing another fact during
//! minimisation keeps the relative order of the rest.

use crate::facts::{FactSet, Kind, KINDS};
use crate::prng::{mix2, Prng};
use serde::{Deserialize, Serialize};
use std::collections::BTreeMap;

#[derive(Clone, Copy, Debug, PartialEq, Eq, Serialize, Deserialize, Hash, PartialOrd, Ord)]
pub enum Mode {
    AsGen,
    Rev,
    IdAsc,
    IdDesc,
    Topo,
    AntiTopo,
    Random,
}

pub const MODES: [Mode; 7] = [Mode::AsGen, Mode::Rev, Mode::IdAsc, Mode::IdDesc, Mode::Topo, Mode::AntiTopo, Mode::Random];

#[derive(Clone, Copy, Debug, PartialEq, Eq, Serialize, Deserialize)]
pub struct Order {
    pub mode: Mode,
    pub seed: u64,
}

impl Order {
    pub fn draw(r: &mut Prng) -> Order {
        // uniform shuffling alone would mostly revisit the same relation between id order,
        // insertion order and DAG order: give the structured modes half of the mass
        let mode = if r.chance(1, 2) { Mode::Random } else { *r.pick(&MODES) };
        Order { mode, seed: r.next_u64() }
    }
    pub fn canonical() -> Order {
        Order { mode: Mode::IdAsc, seed: 0 }
    }
}

#[derive(Clone, Copy, Debug, PartialEq, Eq, Serialize, Deserialize)]
pub struct Dup {
    pub permille: u32,
    pub seed: u64,
}

impl Dup {
    pub fn none() -> Dup {
        Dup { permille: 0, seed: 0 }
    }
    pub fn draw(r: &mut Prng) -> Dup {
        if r.chance(1, 2) {
            Dup::none()
        } else {
            Dup { permille: *r.pick(&[30u32, 100, 200, 500]), seed: r.next_u64() }
        }
    }
    pub fn hits(&self, key: u64) -> u32 {
        if self.permille == 0 {
            return 0;
        }
        let h = mix2(self.seed, key);
        if (h % 1000) as u32 >= self.permille {
            0
        } else if (h >> 20) % 4 == 0 {
            2
        } else {
            1
        }
    }
}

/// sort `items` (with their generated index) according to the order
fn arrange<T: Clone>(items: &[T], order: Order, id_of: impl Fn(&T) -> u64, depth_of: impl Fn(&T) -> u64) -> Vec<T> {
    let mut v: Vec<(u64, u64, usize)> = items
        .iter()
        .enumerate()
        .map(|(i, x)| {
            let id = id_of(x);
            let k = match order.mode {
                Mode::AsGen => i as u64,
                Mode::Rev => u64::MAX - i as u64,
                Mode::IdAsc => id,
                Mode::IdDesc => u64::MAX - id,
                Mode::Topo => depth_of(x),
                Mode::AntiTopo => u64::MAX - depth_of(x),
                Mode::Random => mix2(order.seed, id),
            };
            // ties (same depth) broken by a seeded key so Topo is not always id-ascending inside a layer
            (k, mix2(order.seed ^ 0x5151, id), i)
        })
        .collect();
    v.sort();
    v.into_iter().map(|(_, _, i)| items[i].clone()).collect()
}

fn with_dups<T: Clone>(v: Vec<T>, dup: Dup, key_of: impl Fn(&T) -> u64, fired: &mut u64) -> Vec<T> {
    if dup.permille == 0 {
        return v;
    }
    // originals keep their relative order (odd slots); every duplicate copy is dropped into a seeded slot
    // between two originals (even slots) — O(n log n), also for the full ontology
    let n = v.len() as u64;
    let mut slots: Vec<(u64, u64, usize)> = v.iter().enumerate().map(|(i, _)| (2 * i as u64 + 1, 0, i)).collect();
    for (i, x) in v.iter().enumerate() {
        let k = key_of(x);
        for j in 0..dup.hits(k) {
            let pos = mix2(dup.seed ^ (0xABCD + u64::from(j)), k) % (n + 1);
            slots.push((2 * pos, mix2(k, u64::from(j)), i));
            *fired += 1;
        }
    }
    slots.sort_unstable();
    slots.into_iter().map(|(_, _, i)| v[i].clone()).collect()
}

#[derive(Clone, Debug, PartialEq, Eq, Serialize, Deserialize)]
pub struct AnnFact {
    pub kind: Kind,
    pub rec: u32,
    pub name: String,
    /// None = a bare `add_gene` / `add_*_disease` (record without this being an annotation)
    pub term: Option<u32>,
}

pub fn term_key(id: u32) -> u64 {
    u64::from(id)
}
pub fn link_key(c: u32, p: u32) -> u64 {
    (u64::from(c) << 32) | u64::from(p)
}
pub fn ann_key(k: Kind, rec: u32, term: Option<u32>) -> u64 {
    mix2(mix2(k as u64 + 1, u64::from(rec)), term.map_or(u64::MAX, u64::from))
}

pub fn ordered_terms(f: &FactSet, order: Order, dup: Dup, fired: &mut u64) -> Vec<crate::facts::TermFact> {
    let depth = f.depths();
    let v = arrange(&f.terms, order, |t| term_key(t.id), |t| u64::from(depth.get(&t.id).copied().unwrap_or(0)));
    with_dups(v, dup, |t| term_key(t.id), fired)
}

pub fn ordered_links(f: &FactSet, order: Order, dup: Dup, fired: &mut u64) -> Vec<(u32, u32)> {
    let depth = f.depths();
    let v = arrange(&f.isa, order, |&(c, p)| link_key(c, p), |&(c, _)| u64::from(depth.get(&c).copied().unwrap_or(0)));
    with_dups(v, dup, |&(c, p)| link_key(c, p), fired)
}

/// Annotation facts of all kinds, interleaved. `bare_permille`: how often a record is
/// (also) announced through a bare add_* call; records without terms always are.
pub fn ordered_anns(f: &FactSet, order: Order, dup: Dup, bare_permille: u32, fired: &mut u64) -> Vec<AnnFact> {
    let depth = f.depths();
    let mut items: Vec<AnnFact> = vec![];
    for k in KINDS {
        for r in f.recs(k) {
            let bare = r.terms.is_empty() || (mix2(order.seed ^ 0xBA5E, ann_key(k, r.id, None)) % 1000) < u64::from(bare_permille);
            if bare {
                items.push(AnnFact { kind: k, rec: r.id, name: r.name.clone(), term: None });
            }
            for t in &r.terms {
                items.push(AnnFact { kind: k, rec: r.id, name: r.name.clone(), term: Some(*t) });
            }
        }
    }
    let v = arrange(
        &items,
        order,
        |a| ann_key(a.kind, a.rec, a.term),
        |a| a.term.map_or(0, |t| u64::from(depth.get(&t).copied().unwrap_or(0))),
    );
    with_dups(v, dup, |a| ann_key(a.kind, a.rec, a.term), fired)
}

/// Record order inside one annotation section / file
pub fn ordered_recs(f: &FactSet, k: Kind, order: Order) -> Vec<crate::facts::Rec> {
    arrange(f.recs(k), order, |r| mix2(k as u64 + 7, u64::from(r.id)), |r| r.terms.len() as u64)
}

/// Fingerprint of the relation between a delivery order and id / topological order
/// (used as part of the "distinct schedules" measure)
pub fn order_signature(ids_in_order: &[u32], depth: &BTreeMap<u32, u32>) -> u8 {
    if ids_in_order.len() < 2 {
        return 0;
    }
    let mut asc = 0usize;
    let mut topo = 0usize;
    let n = ids_in_order.len() - 1;
    for w in ids_in_order.windows(2) {
        if w[0] < w[1] {
            asc += 1;
        }
        if depth.get(&w[0]).copied().unwrap_or(0) <= depth.get(&w[1]).copied().unwrap_or(0) {
            topo += 1;
        }
    }
    let q = |x: usize| -> u8 {
        if x == 0 {
            0
        } else if x == n {
            3
        } else if x * 2 < n {
            1
        } else {
            2
        }
    };
    q(asc) * 4 + q(topo)
}

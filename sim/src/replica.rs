//! A replica = one construction of an ontology from a fact set over one path
//! (real library code) under one delivery schedule and one hash schedule.

use crate::binenc::{encode, BinOrders};
use crate::channel::{ordered_anns, ordered_links, ordered_terms, order_signature, Dup, Order};
use crate::facts::{FactSet, Kind, Proj};
use crate::obs::guarded;
use crate::prng::Prng;
use crate::text::{render, write_files, TextSpec};
use hpo::builder::Builder;
use hpo::Ontology;
use serde::{Deserialize, Serialize};
use std::collections::BTreeMap;
use std::path::PathBuf;

#[derive(Clone, Copy, Debug, PartialEq, Eq, Serialize, Deserialize, Hash, PartialOrd, Ord)]
pub enum PathKind {
    Builder,
    BinV1,
    BinV2,
    BinV3,
    /// `from_bytes(as_bytes(inner replica))`
    BinLib,
    Text,
    TextTransitive,
}

pub const ALL_PATHS: [PathKind; 7] = [PathKind::Builder, PathKind::BinV1, PathKind::BinV2, PathKind::BinV3, PathKind::BinLib, PathKind::Text, PathKind::TextTransitive];

#[derive(Clone, Debug, PartialEq, Eq, Serialize, Deserialize)]
pub struct ReplicaSpec {
    pub path: PathKind,
    /// Builder only: `build_with_defaults` (true) or `build_minimal`
    pub defaults: bool,
    pub term_order: Order,
    pub link_order: Order,
    pub ann_order: Order,
    pub dup: Dup,
    pub bare_permille: u32,
    pub version_at: u8,
    pub bin: BinOrders,
    pub text: TextSpec,
    /// (mode, seed) of the hash scheduler while this replica is constructed
    pub hash: (u8, u64),
    /// binary paths: go through a real file and `from_binary`
    pub via_file: bool,
    pub inner: Option<Box<ReplicaSpec>>,
    /// Builder path only: some deliveries name the record differently (empty / other symbol). Which name wins is not
    /// stated by any property, so this is only switched on for lenses that do not own record names (C02, C10).
    #[serde(default)]
    pub alt_names: bool,
}

impl ReplicaSpec {
    pub fn draw(r: &mut Prng, path: PathKind) -> ReplicaSpec {
        Self::draw_d(r, path, 0)
    }

    fn draw_d(r: &mut Prng, path: PathKind, depth: u8) -> ReplicaSpec {
        let hash_mode = if r.chance(3, 5) { 0 } else { r.range(1, 3) as u8 };
        let inner = if path == PathKind::BinLib {
            let p = if depth == 0 {
                *r.pick(&[PathKind::Builder, PathKind::Builder, PathKind::BinV3, PathKind::Text, PathKind::BinV2, PathKind::BinV1, PathKind::BinLib, PathKind::TextTransitive])
            } else {
                *r.pick(&[PathKind::Builder, PathKind::BinV3, PathKind::Text])
            };
            Some(Box::new(Self::draw_d(r, p, depth + 1)))
        } else {
            None
        };
        ReplicaSpec {
            path,
            defaults: true,
            term_order: Order::draw(r),
            link_order: Order::draw(r),
            ann_order: Order::draw(r),
            dup: Dup::draw(r),
            bare_permille: *r.pick(&[0u32, 0, 200, 1000]),
            version_at: r.below(3) as u8,
            bin: BinOrders::draw(r),
            text: TextSpec::draw(r, path == PathKind::TextTransitive),
            hash: (hash_mode, r.next_u64()),
            via_file: r.chance(1, 4),
            inner,
            alt_names: false,
        }
    }

    pub fn canonical(path: PathKind) -> ReplicaSpec {
        let c = Order::canonical();
        ReplicaSpec {
            path,
            defaults: true,
            term_order: c,
            link_order: c,
            ann_order: c,
            dup: Dup::none(),
            bare_permille: 0,
            version_at: 0,
            bin: BinOrders::canonical(),
            text: TextSpec::canonical(path == PathKind::TextTransitive),
            hash: (1, 0),
            via_file: false,
            inner: if path == PathKind::BinLib { Some(Box::new(ReplicaSpec::canonical(PathKind::Builder))) } else { None },
            alt_names: false,
        }
    }

    /// what this transport cannot carry
    pub fn projs(&self) -> Vec<Proj> {
        match self.path {
            PathKind::Builder => vec![Proj::Builder],
            PathKind::BinV1 => vec![Proj::V1, Proj::Trunc255],
            PathKind::BinV2 => vec![Proj::V2, Proj::Trunc255],
            PathKind::BinV3 => vec![Proj::Trunc255],
            PathKind::BinLib => {
                let mut v = self.inner.as_ref().map(|i| i.projs()).unwrap_or_default();
                v.push(Proj::Trunc255);
                v
            }
            PathKind::Text => vec![Proj::Text],
            PathKind::TextTransitive => match self.text.trans_partial {
                Some(seed) => vec![Proj::TextTransitivePartial(seed)],
                None => vec![Proj::TextTransitive],
            },
        }
    }

    /// does the result carry default categories / modifiers?
    pub fn has_defaults(&self) -> bool {
        match self.path {
            PathKind::Builder => self.defaults,
            _ => true,
        }
    }

    /// the files of this transport carry no release version (hp.obo rendered without its header block)
    pub fn omits_version(&self) -> bool {
        (matches!(self.path, PathKind::Text | PathKind::TextTransitive) && self.text.no_obo_header) || self.inner.as_ref().map_or(false, |i| i.omits_version())
    }

    pub fn uses_text(&self) -> bool {
        matches!(self.path, PathKind::Text | PathKind::TextTransitive) || self.inner.as_ref().map_or(false, |i| i.uses_text())
    }

    pub fn label(&self) -> String {
        match self.path {
            PathKind::BinLib => format!("BinLib<{}>", self.inner.as_ref().map(|i| i.label()).unwrap_or_default()),
            PathKind::Builder if !self.defaults => "Builder(minimal)".into(),
            p => format!("{p:?}"),
        }
    }
}

pub enum Built {
    Ok(Box<Ontology>),
    Err(String),
    Panic(String),
}

impl Built {
    pub fn into_ok(self) -> Option<Box<Ontology>> {
        match self {
            Built::Ok(o) => Some(o),
            _ => None,
        }
    }
    pub fn describe(&self) -> String {
        match self {
            Built::Ok(_) => "Ok".into(),
            Built::Err(e) => format!("Err({e})"),
            Built::Panic(e) => format!("panic({e})"),
        }
    }
    pub fn ok(&self) -> Option<&Ontology> {
        match self {
            Built::Ok(o) => Some(o),
            _ => None,
        }
    }
}

#[derive(Clone, Debug, Default, Serialize, Deserialize)]
pub struct Counters {
    pub c: BTreeMap<String, u64>,
}

impl Counters {
    pub fn add(&mut self, k: &str, n: u64) {
        if n > 0 {
            *self.c.entry(k.to_string()).or_default() += n;
        }
    }
    pub fn merge(&mut self, o: &Counters) {
        for (k, v) in &o.c {
            *self.c.entry(k.clone()).or_default() += v;
        }
    }
}

/// Per-process context: scratch directory, counters, optional event trace
pub struct Ctx {
    pub scratch: PathBuf,
    pub counters: Counters,
    pub trace: Option<Vec<String>>,
    pub fingerprints: std::collections::BTreeSet<u64>,
    seq: u64,
}

impl Ctx {
    pub fn new(trace: bool) -> Ctx {
        let base = std::env::var("HPOSIM_SCRATCH").unwrap_or_else(|_| "/verif/target/scratch".to_string());
        let scratch = PathBuf::from(base).join(format!("p{}", std::process::id()));
        let _ = std::fs::create_dir_all(&scratch);
        Ctx { scratch, counters: Counters::default(), trace: if trace { Some(vec![]) } else { None }, fingerprints: Default::default(), seq: 0 }
    }
    pub fn ev(&mut self, f: impl FnOnce() -> String) {
        if let Some(t) = &mut self.trace {
            if t.len() < 4000 {
                t.push(f());
            }
        }
    }
    pub fn step(&mut self, n: u64) {
        self.counters.add("steps", n);
    }
    pub fn fresh_path(&mut self, stem: &str) -> PathBuf {
        // the same path is rewritten several times in a row (a user refreshing one data folder / one file), then
        // another one is used
        self.seq += 1;
        self.scratch.join(format!("{stem}{}", (self.seq / 6) % 3))
    }
    pub fn cleanup(&self) {
        let _ = std::fs::remove_dir_all(&self.scratch);
    }
}

pub fn set_hash(h: (u8, u64)) {
    hpo::verif::set_hash_schedule(h.0, h.1);
}

pub fn load_bytes(ctx: &mut Ctx, bytes: &[u8], via_file: bool) -> Built {
    ctx.step(1);
    if via_file {
        let p = ctx.fresh_path("img");
        if std::fs::write(&p, bytes).is_err() {
            return Built::Err("harness: cannot write scratch file".into());
        }
        ctx.counters.add("from_binary_calls", 1);
        let r = guarded(|| Ontology::from_binary(&p));
        match r {
            Ok(Ok(o)) => Built::Ok(Box::new(o)),
            Ok(Err(e)) => Built::Err(format!("{e:?}")),
            Err(p) => Built::Panic(p),
        }
    } else {
        ctx.counters.add("from_bytes_calls", 1);
        match guarded(|| Ontology::from_bytes(bytes)) {
            Ok(Ok(o)) => Built::Ok(Box::new(o)),
            Ok(Err(e)) => Built::Err(format!("{e:?}")),
            Err(p) => Built::Panic(p),
        }
    }
}

/// The bytes a binary path delivers (for BinLib: builds the inner replica and serialises it)
pub fn bytes_for(ctx: &mut Ctx, f: &FactSet, spec: &ReplicaSpec) -> Result<Vec<u8>, Built> {
    match spec.path {
        PathKind::BinV1 => Ok(encode(f, 1, &spec.bin)),
        PathKind::BinV2 => Ok(encode(f, 2, &spec.bin)),
        PathKind::BinV3 => Ok(encode(f, 3, &spec.bin)),
        PathKind::BinLib => {
            let inner = spec.inner.as_ref().expect("BinLib has an inner spec");
            match build(ctx, f, inner) {
                Built::Ok(o) => {
                    ctx.counters.add("as_bytes_calls", 1);
                    ctx.step(1);
                    match guarded(|| o.as_bytes()) {
                        Ok(b) => Ok(b),
                        Err(p) => Err(Built::Panic(format!("as_bytes: {p}"))),
                    }
                }
                other => Err(other),
            }
        }
        _ => unreachable!("not a binary path"),
    }
}

pub fn build(ctx: &mut Ctx, f: &FactSet, spec: &ReplicaSpec) -> Built {
    let depth = f.depths();
    match spec.path {
        PathKind::Builder => {
            set_hash(spec.hash);
            let mut dupc = 0u64;
            let terms = ordered_terms(f, spec.term_order, spec.dup, &mut dupc);
            let links = ordered_links(f, spec.link_order, spec.dup, &mut dupc);
            let mut anns = ordered_anns(f, spec.ann_order, spec.dup, spec.bare_permille, &mut dupc);
            if spec.alt_names {
                let mut altered = 0u64;
                for (i, a) in anns.iter_mut().enumerate() {
                    let h = crate::prng::mix2(spec.ann_order.seed ^ 0xA17, i as u64);
                    if h % 4 == 0 {
                        a.name = match (h >> 8) % 3 {
                            0 => String::new(),
                            1 => format!("{}2", a.name),
                            _ => "ALT".to_string(),
                        };
                        altered += 1;
                    }
                }
                ctx.counters.add("fault.delivery_with_another_record_name", altered);
            }
            ctx.counters.add("fault.duplicate_delivery", dupc);
            ctx.step((terms.len() + links.len() + anns.len() + 4) as u64);
            let tsig = order_signature(&terms.iter().map(|t| t.id).collect::<Vec<_>>(), &depth);
            let lsig = order_signature(&links.iter().map(|l| l.0).collect::<Vec<_>>(), &depth);
            let asig = order_signature(&anns.iter().filter_map(|a| a.term).collect::<Vec<_>>(), &depth);
            ctx.fingerprints.insert(crate::prng::mix2(
                u64::from(tsig) | (u64::from(lsig) << 8) | (u64::from(asig) << 16) | (u64::from(spec.hash.0) << 24) | (u64::from(dupc.min(3) as u8) << 32),
                0xB1,
            ));
            if tsig & 0b1100 != 0b1100 || lsig != 15 {
                ctx.counters.add("fault.reordered_delivery", 1);
            }
            if ctx.trace.is_some() {
                for t in &terms {
                    ctx.ev(|| format!("new_term({:?}, {})", t.name, t.id));
                }
                ctx.ev(|| "terms_complete()".into());
                for (c, p) in &links {
                    ctx.ev(|| format!("add_parent(parent={p}, child={c})"));
                }
                ctx.ev(|| "connect_all_terms()".into());
                for a in &anns {
                    ctx.ev(|| match a.term {
                        Some(t) => format!("annotate_{:?}({}, {:?}, {})", a.kind, a.rec, a.name, t),
                        None => format!("add_{:?}({:?}, {})", a.kind, a.name, a.rec),
                    });
                }
                ctx.ev(|| format!("calculate_information_content(); build(defaults={})", spec.defaults));
            }
            let version = f.version;
            let r = guarded(|| -> Result<Ontology, String> {
                let mut b = Builder::new();
                if spec.version_at == 0 {
                    b.set_hpo_version(version);
                }
                for t in &terms {
                    b.new_term(&t.name, t.id);
                }
                let mut b = b.terms_complete();
                if spec.version_at == 1 {
                    b.set_hpo_version(version);
                }
                for (c, p) in &links {
                    b.add_parent(*p, *c).map_err(|e| format!("add_parent({p},{c}): {e:?}"))?;
                }
                let mut b = b.connect_all_terms();
                if spec.version_at >= 2 {
                    b.set_hpo_version(version);
                }
                for a in &anns {
                    match (a.kind, a.term) {
                        (Kind::Gene, None) => b.add_gene(&a.name, a.rec.into()),
                        (Kind::Omim, None) => {
                            b.add_omim_disease(&a.name, a.rec.into());
                        }
                        (Kind::Orpha, None) => {
                            b.add_orpha_disease(&a.name, a.rec.into());
                        }
                        (Kind::Gene, Some(t)) => b.annotate_gene(a.rec.into(), &a.name, t.into()).map_err(|e| format!("annotate_gene: {e:?}"))?,
                        (Kind::Omim, Some(t)) => b.annotate_omim_disease(a.rec.into(), &a.name, t.into()).map_err(|e| format!("annotate_omim: {e:?}"))?,
                        (Kind::Orpha, Some(t)) => b.annotate_orpha_disease(a.rec.into(), &a.name, t.into()).map_err(|e| format!("annotate_orpha: {e:?}"))?,
                    }
                }
                let b = b.calculate_information_content().map_err(|e| format!("calculate_information_content: {e:?}"))?;
                if spec.defaults {
                    b.build_with_defaults().map_err(|e| format!("build_with_defaults: {e:?}"))
                } else {
                    Ok(b.build_minimal())
                }
            });
            ctx.counters.add("hash.maps_created", hpo::verif::maps_created());
            match r {
                Ok(Ok(o)) => Built::Ok(Box::new(o)),
                Ok(Err(e)) => Built::Err(e),
                Err(p) => Built::Panic(p),
            }
        }
        PathKind::BinV1 | PathKind::BinV2 | PathKind::BinV3 | PathKind::BinLib => {
            let bytes = match bytes_for(ctx, f, spec) {
                Ok(b) => b,
                Err(b) => return b,
            };
            if spec.path != PathKind::BinLib {
                let sig = order_signature(&ordered_terms(f, spec.bin.terms, Dup::none(), &mut 0).iter().map(|t| t.id).collect::<Vec<_>>(), &depth);
                let psig = order_signature(&ordered_terms(f, spec.bin.parents, Dup::none(), &mut 0).iter().map(|t| t.id).collect::<Vec<_>>(), &depth);
                ctx.fingerprints.insert(crate::prng::mix2(u64::from(sig) | (u64::from(psig) << 8) | (u64::from(spec.hash.0) << 24) | ((spec.path as u64) << 40), 0xB2));
                if sig & 0b1100 != 0b1100 {
                    ctx.counters.add("fault.reordered_records", 1);
                }
            } else {
                ctx.fingerprints.insert(crate::prng::mix2(crate::prng::tag(&spec.label()) ^ u64::from(spec.hash.0), 0xB3));
            }
            ctx.ev(|| format!("{}: {} bytes -> {}", spec.label(), bytes.len(), if spec.via_file { "file + from_binary" } else { "from_bytes" }));
            set_hash(spec.hash);
            let b = load_bytes(ctx, &bytes, spec.via_file);
            ctx.counters.add("hash.maps_created", hpo::verif::maps_created());
            b
        }
        PathKind::Text | PathKind::TextTransitive => {
            let transitive = spec.path == PathKind::TextTransitive;
            let mut ts = spec.text;
            ts.transitive = transitive;
            let files = render(f, &ts);
            for (k, v) in &files.injected {
                ctx.counters.add(&format!("fault.inject_ignorable.{k}"), *v);
            }
            ctx.counters.add("fault.duplicate_rows", files.dup_rows);
            ctx.step((files.obo.lines().count() + files.genes.lines().count() + files.hpoa.lines().count()) as u64);
            let sig = order_signature(&ordered_terms(f, ts.stanzas, Dup::none(), &mut 0).iter().map(|t| t.id).collect::<Vec<_>>(), &depth);
            ctx.fingerprints.insert(crate::prng::mix2(
                u64::from(sig) | ((ts.gene_rows.mode as u64) << 8) | ((ts.disease_rows.mode as u64) << 12) | (u64::from(spec.hash.0) << 24) | (u64::from(files.injected.len() as u8) << 32) | ((transitive as u64) << 41),
                0xB4,
            ));
            if sig & 0b1100 != 0b1100 {
                ctx.counters.add("fault.reordered_stanzas", 1);
            }
            let dir = ctx.fresh_path("txt");
            if write_files(&dir, &files, transitive).is_err() {
                return Built::Err("harness: cannot write text files".into());
            }
            ctx.ev(|| format!("{:?}: hp.obo {} B, genes {} B, hpoa {} B", spec.path, files.obo.len(), files.genes.len(), files.hpoa.len()));
            set_hash(spec.hash);
            let d = dir.to_string_lossy().to_string();
            ctx.counters.add("text_loads", 1);
            let r = guarded(|| if transitive { Ontology::from_standard_transitive(&d) } else { Ontology::from_standard(&d) });
            ctx.counters.add("hash.maps_created", hpo::verif::maps_created());
            match r {
                Ok(Ok(o)) => Built::Ok(Box::new(o)),
                Ok(Err(e)) => Built::Err(format!("{e:?}")),
                Err(p) => Built::Panic(p),
            }
        }
    }
}

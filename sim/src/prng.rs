//! SplitMix64 seeding + xoshiro256** — in-tree so results never shift with a dependency.

#[derive(Clone, Debug)]
pub struct Prng {
    s: [u64; 4],
}

pub fn splitmix(x: &mut u64) -> u64 {
    *x = x.wrapping_add(0x9E37_79B9_7F4A_7C15);
    let mut z = *x;
    z = (z ^ (z >> 30)).wrapping_mul(0xBF58_476D_1CE4_E5B9);
    z = (z ^ (z >> 27)).wrapping_mul(0x94D0_49BB_1331_11EB);
    z ^ (z >> 31)
}

/// Stateless 64-bit mixer used for keyed, removal-stable orderings
pub fn mix2(a: u64, b: u64) -> u64 {
    let mut x = a ^ b.wrapping_mul(0xD6E8_FEB8_6659_FD93).rotate_left(23);
    splitmix(&mut x)
}

pub fn tag(s: &str) -> u64 {
    let mut h = 0xcbf2_9ce4_8422_2325u64;
    for b in s.bytes() {
        h ^= u64::from(b);
        h = h.wrapping_mul(0x0100_0000_01b3);
    }
    h
}

impl Prng {
    pub fn new(seed: u64) -> Self {
        let mut x = seed;
        let s = [
            splitmix(&mut x),
            splitmix(&mut x),
            splitmix(&mut x),
            splitmix(&mut x),
        ];
        Prng { s }
    }

    /// Independent sub-generator: draws made on it do not move `self`
    /// beyond the single draw taken here.
    pub fn fork(&mut self, t: &str) -> Prng {
        let a = self.next_u64();
        Prng::new(mix2(a, tag(t)))
    }

    pub fn next_u64(&mut self) -> u64 {
        let result = self.s[1].wrapping_mul(5).rotate_left(7).wrapping_mul(9);
        let t = self.s[1] << 17;
        self.s[2] ^= self.s[0];
        self.s[3] ^= self.s[1];
        self.s[1] ^= self.s[2];
        self.s[0] ^= self.s[3];
        self.s[2] ^= t;
        self.s[3] = self.s[3].rotate_left(45);
        result
    }

    /// uniform in 0..n (n > 0)
    pub fn below(&mut self, n: u64) -> u64 {
        debug_assert!(n > 0);
        // multiply-shift; bias is irrelevant here
        ((u128::from(self.next_u64()) * u128::from(n)) >> 64) as u64
    }

    pub fn usize_below(&mut self, n: usize) -> usize {
        self.below(n as u64) as usize
    }

    /// inclusive range
    pub fn range(&mut self, lo: u64, hi: u64) -> u64 {
        lo + self.below(hi - lo + 1)
    }

    pub fn urange(&mut self, lo: usize, hi: usize) -> usize {
        self.range(lo as u64, hi as u64) as usize
    }

    /// true with probability num/den
    pub fn chance(&mut self, num: u64, den: u64) -> bool {
        self.below(den) < num
    }

    pub fn pick<'a, T>(&mut self, v: &'a [T]) -> &'a T {
        &v[self.usize_below(v.len())]
    }

    pub fn shuffle<T>(&mut self, v: &mut [T]) {
        for i in (1..v.len()).rev() {
            let j = self.usize_below(i + 1);
            v.swap(i, j);
        }
    }
}

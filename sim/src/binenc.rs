//! Independent encoders for binary layouts v1, v2, v3, written from the documented
//! layouts (doc comments of `HpoTermInternal::as_bytes`, `parents_as_byte`,
//! `Gene::as_bytes`, `Disease::as_bytes`, `Ontology::as_bytes`, `parser::binary`),
//! never calling the library's writer. Plus an independent decoder of the v3
//! layout used to cross-check what `as_bytes` emits.

use crate::channel::{ordered_recs, ordered_terms, Dup, Order};
use crate::facts::{cut255, FactSet, Kind, Rec, TermFact};
use crate::prng::Prng;
use serde::{Deserialize, Serialize};

#[derive(Clone, Copy, Debug, PartialEq, Eq, Serialize, Deserialize)]
pub struct BinOrders {
    pub terms: Order,
    pub parents: Order,
    pub genes: Order,
    pub omim: Order,
    pub orpha: Order,
    /// order of the ids *inside* a record (parents of a term, terms of a gene / disease). The layout
    /// documents "the Term ID of all parents" / "the HPO Term IDs of the associated terms" without any order.
    #[serde(default = "Order::canonical")]
    pub inner: Order,
}

impl BinOrders {
    pub fn draw(r: &mut Prng) -> BinOrders {
        let inner = if r.chance(1, 2) { Order::canonical() } else { Order { mode: *r.pick(&[crate::channel::Mode::IdDesc, crate::channel::Mode::Random, crate::channel::Mode::Random]), seed: r.next_u64() } };
        BinOrders { terms: Order::draw(r), parents: Order::draw(r), genes: Order::draw(r), omim: Order::draw(r), orpha: Order::draw(r), inner }
    }
    pub fn canonical() -> BinOrders {
        let c = Order::canonical();
        BinOrders { terms: c, parents: c, genes: c, omim: c, orpha: c, inner: c }
    }
}

fn be(n: usize) -> [u8; 4] {
    (u32::try_from(n).expect("fits u32")).to_be_bytes()
}

/// ids of one record in the scheduled inner order (ascending, descending or keyed random)
fn inner_order(ids: impl Iterator<Item = u32>, o: Order, salt: u64) -> Vec<u32> {
    use crate::channel::Mode;
    let mut v: Vec<u32> = ids.collect();
    match o.mode {
        Mode::IdDesc => v.sort_unstable_by(|a, b| b.cmp(a)),
        Mode::Random => v.sort_by_key(|x| crate::prng::mix2(o.seed ^ salt, u64::from(*x))),
        _ => v.sort_unstable(),
    }
    // a redundant fact inside a record: one id listed twice (only under the non-canonical inner schedules)
    if o.seed != 0 && !v.is_empty() && crate::prng::mix2(o.seed ^ 0xD0B1, salt) % 8 == 0 {
        let i = (crate::prng::mix2(o.seed ^ 0xD0B2, salt) % v.len() as u64) as usize;
        let j = (crate::prng::mix2(o.seed ^ 0xD0B3, salt) % (v.len() as u64 + 1)) as usize;
        let x = v[i];
        v.insert(j, x);
    }
    v
}

fn term_record(t: &TermFact, version: u8) -> Vec<u8> {
    let name = cut255(&t.name);
    let nb = name.as_bytes();
    let mut v = vec![];
    let total = if version == 1 { 4 + 4 + 1 + nb.len() } else { 4 + 4 + 1 + nb.len() + 1 + 4 };
    v.extend_from_slice(&be(total));
    v.extend_from_slice(&t.id.to_be_bytes());
    v.push(nb.len() as u8);
    v.extend_from_slice(nb);
    if version >= 2 {
        v.push(u8::from(t.obsolete));
        v.extend_from_slice(&t.replacement.unwrap_or(0).to_be_bytes());
    }
    v
}

fn gene_record(r: &Rec, inner: Order) -> Vec<u8> {
    let name = cut255(&r.name);
    let nb = name.as_bytes();
    let total = 4 + 4 + 1 + nb.len() + 4 + 4 * r.terms.len();
    let mut v = vec![];
    v.extend_from_slice(&be(total));
    v.extend_from_slice(&r.id.to_be_bytes());
    v.push(nb.len() as u8);
    v.extend_from_slice(nb);
    let ids = inner_order(r.terms.iter().copied(), inner, u64::from(r.id));
    v.extend_from_slice(&be(ids.len()));
    for t in &ids {
        v.extend_from_slice(&t.to_be_bytes());
    }
    // the record length counts the ids actually written
    let total = v.len();
    v[0..4].copy_from_slice(&be(total));
    v
}

fn disease_record(r: &Rec, inner: Order) -> Vec<u8> {
    let nb = r.name.as_bytes();
    let total = 4 + 4 + 4 + nb.len() + 4 + 4 * r.terms.len();
    let mut v = vec![];
    v.extend_from_slice(&be(total));
    v.extend_from_slice(&r.id.to_be_bytes());
    v.extend_from_slice(&be(nb.len()));
    v.extend_from_slice(nb);
    let ids = inner_order(r.terms.iter().copied(), inner, u64::from(r.id));
    v.extend_from_slice(&be(ids.len()));
    for t in &ids {
        v.extend_from_slice(&t.to_be_bytes());
    }
    // the record length counts the ids actually written
    let total = v.len();
    v[0..4].copy_from_slice(&be(total));
    v
}

fn section(out: &mut Vec<u8>, body: Vec<u8>) {
    out.extend_from_slice(&be(body.len()));
    out.extend_from_slice(&body);
}

/// Encodes `f` in layout `version` (1, 2 or 3). What the version cannot carry is
/// silently not written (v1: release version, obsolete, replacement, ORPHA; v2: ORPHA).
pub fn encode(f: &FactSet, version: u8, ord: &BinOrders) -> Vec<u8> {
    let mut out = vec![];
    if version >= 2 {
        out.extend_from_slice(b"HPO");
        out.push(version);
        out.extend_from_slice(&f.version.0.to_be_bytes());
        out.push(f.version.1);
        out.push(f.version.2);
    }
    let mut fired = 0u64;
    let mut body = vec![];
    for t in ordered_terms(f, ord.terms, Dup::none(), &mut fired) {
        body.extend_from_slice(&term_record(&t, version));
    }
    section(&mut out, body);
    // one parent record per term (also for terms without parents), in an order of its own
    let pm = f.parents_map();
    let mut body = vec![];
    let mut tail = vec![];
    for t in ordered_terms(f, ord.parents, Dup::none(), &mut fired) {
        let ps = &pm[&t.id];
        let mut ids = inner_order(ps.iter().copied(), ord.inner, u64::from(t.id));
        // the connections of one term split over two records (an encoder that writes per edge / per source file):
        // the second record goes to the end of the section
        if ord.inner.seed != 0 && ids.len() >= 2 && crate::prng::mix2(ord.inner.seed ^ 0x5911, u64::from(t.id)) % 5 == 0 {
            let cut = 1 + (crate::prng::mix2(ord.inner.seed ^ 0x5912, u64::from(t.id)) % (ids.len() as u64 - 1)) as usize;
            let rest = ids.split_off(cut);
            tail.extend_from_slice(&be(rest.len()));
            tail.extend_from_slice(&t.id.to_be_bytes());
            for p in rest {
                tail.extend_from_slice(&p.to_be_bytes());
            }
        }
        body.extend_from_slice(&be(ids.len()));
        body.extend_from_slice(&t.id.to_be_bytes());
        for p in ids {
            body.extend_from_slice(&p.to_be_bytes());
        }
    }
    body.extend_from_slice(&tail);
    section(&mut out, body);
    let mut body = vec![];
    for r in ordered_recs(f, Kind::Gene, ord.genes) {
        body.extend_from_slice(&gene_record(&r, ord.inner));
    }
    section(&mut out, body);
    let mut body = vec![];
    for r in ordered_recs(f, Kind::Omim, ord.omim) {
        body.extend_from_slice(&disease_record(&r, ord.inner));
    }
    section(&mut out, body);
    if version >= 3 {
        let mut body = vec![];
        for r in ordered_recs(f, Kind::Orpha, ord.orpha) {
            body.extend_from_slice(&disease_record(&r, ord.inner));
        }
        section(&mut out, body);
    }
    out
}

/// Offsets at which each section (incl. its length prefix) ends; last = file length
pub fn section_ends(bytes: &[u8], version: u8) -> Vec<usize> {
    let mut pos = if version >= 2 { 8 } else { 0 };
    let n = if version >= 3 { 5 } else { 4 };
    let mut v = vec![];
    for _ in 0..n {
        if pos + 4 > bytes.len() {
            break;
        }
        let l = u32::from_be_bytes([bytes[pos], bytes[pos + 1], bytes[pos + 2], bytes[pos + 3]]) as usize;
        pos += 4 + l;
        v.push(pos);
    }
    v
}

// ------------------------------------------------------------------ decoder (v3 only)

struct Cur<'a> {
    b: &'a [u8],
    p: usize,
}
impl<'a> Cur<'a> {
    fn u32(&mut self) -> Result<u32, String> {
        if self.p + 4 > self.b.len() {
            return Err(format!("u32 at {} beyond {}", self.p, self.b.len()));
        }
        let v = u32::from_be_bytes([self.b[self.p], self.b[self.p + 1], self.b[self.p + 2], self.b[self.p + 3]]);
        self.p += 4;
        Ok(v)
    }
    fn u8(&mut self) -> Result<u8, String> {
        if self.p >= self.b.len() {
            return Err("u8 beyond end".into());
        }
        self.p += 1;
        Ok(self.b[self.p - 1])
    }
    fn take(&mut self, n: usize) -> Result<&'a [u8], String> {
        if self.p + n > self.b.len() {
            return Err(format!("{} bytes at {} beyond {}", n, self.p, self.b.len()));
        }
        self.p += n;
        Ok(&self.b[self.p - n..self.p])
    }
}

/// Decodes a v3 byte string strictly by the documented layout.
pub fn decode_v3(bytes: &[u8]) -> Result<FactSet, String> {
    match decode(bytes)? {
        (3, f) => Ok(f),
        (v, _) => Err(format!("version {v}")),
    }
}

/// Decodes a v1, v2 or v3 byte string strictly by the documented layouts; returns (version, facts).
pub fn decode(bytes: &[u8]) -> Result<(u8, FactSet), String> {
    let mut c = Cur { b: bytes, p: 0 };
    let version: u8 = if bytes.len() >= 4 && &bytes[0..3] == b"HPO" {
        c.p = 3;
        let v = c.u8()?;
        if v != 2 && v != 3 {
            return Err(format!("unsupported version byte {v}"));
        }
        v
    } else {
        1
    };
    let mut f = FactSet::default();
    if version >= 2 {
        let y = u16::from_be_bytes([c.u8()?, c.u8()?]);
        let m = c.u8()?;
        let d = c.u8()?;
        f.version = (y, m, d);
    }
    // terms
    let l = c.u32()? as usize;
    let end = c.p + l;
    while c.p < end {
        let start = c.p;
        let total = c.u32()? as usize;
        let id = c.u32()?;
        let nl = c.u8()? as usize;
        let name = String::from_utf8(c.take(nl)?.to_vec()).map_err(|_| format!("term {id}: name is not UTF-8"))?;
        let (flags, repl) = if version >= 2 { (c.u8()?, c.u32()?) } else { (0, 0) };
        if c.p - start != total {
            return Err(format!("term {id}: record length {} but {} consumed", total, c.p - start));
        }
        f.terms.push(TermFact { id, name, obsolete: flags & 1 == 1, replacement: if repl == 0 { None } else { Some(repl) } });
    }
    if c.p != end {
        return Err("terms section overrun".into());
    }
    let l = c.u32()? as usize;
    let end = c.p + l;
    while c.p < end {
        let n = c.u32()?;
        let id = c.u32()?;
        for _ in 0..n {
            f.isa.push((id, c.u32()?));
        }
    }
    if c.p != end {
        return Err("parents section overrun".into());
    }
    let nkinds = if version >= 3 { 3 } else { 2 };
    for kind in 0..nkinds {
        let l = c.u32()? as usize;
        let end = c.p + l;
        while c.p < end {
            let start = c.p;
            let total = c.u32()? as usize;
            let id = c.u32()?;
            let nl = if kind == 0 { c.u8()? as usize } else { c.u32()? as usize };
            let name = String::from_utf8(c.take(nl)?.to_vec()).map_err(|_| format!("record {id}: name is not UTF-8"))?;
            let nt = c.u32()?;
            let mut terms = vec![];
            for _ in 0..nt {
                terms.push(c.u32()?);
            }
            if c.p - start != total {
                return Err(format!("record {id}: length {} but {} consumed", total, c.p - start));
            }
            let r = Rec { id, name, terms };
            match kind {
                0 => f.genes.push(r),
                1 => f.omim.push(r),
                _ => f.orpha.push(r),
            }
        }
        if c.p != end {
            return Err("annotation section overrun".into());
        }
    }
    if c.p != bytes.len() {
        return Err("trailing bytes".into());
    }
    f.normalise();
    Ok((version, f))
}

#!/usr/bin/env python3
"""Confirm a sub-agent's seeded change independently and, if it holds up, keep it under
/verif/seeded/<id>/ (patch.diff, demo.rs, notes.md, meta.json).

usage: tools/verify_seed.py <PROP> <variant> [<source dir, default /tmp/seed-out/PROP/variant>]

Confirms in a fresh scratch worktree of /repo (outside /repo and /verif, removed afterwards):
  1. the patch applies and the crate compiles,
  2. the existing suite passes with it (84 unit + 141 doc tests),
  3. the demonstration fails with the change and passes without it.
"""
import json, os, shutil, subprocess, sys

prop, var = sys.argv[1], sys.argv[2]
src = sys.argv[3] if len(sys.argv) > 3 else f"/tmp/seed-out/{prop}/{var}"
sid = f"{prop}-{var}"
base = f"/tmp/seedv-{sid}"
repo = base + "/repo"
env = dict(os.environ, CARGO_NET_OFFLINE="true", CARGO_TARGET_DIR=base + "/target")


def sh(cmd, cwd=None):
    return subprocess.run(cmd, shell=True, cwd=cwd, env=env, stdout=subprocess.PIPE, stderr=subprocess.STDOUT, text=True)


def results(out):
    return [l for l in out.splitlines() if l.startswith("test result")]


shutil.rmtree(base, ignore_errors=True)
os.makedirs(base)
sh("git -C /repo worktree prune")
r = sh(f"git -C /repo worktree add -q --detach {repo} HEAD")
ok = True
ran = []
try:
    assert r.returncode == 0, r.stdout
    patch = f"{src}/patch.diff"
    r = sh(f"git apply {patch}", cwd=repo)
    if r.returncode != 0:
        print("patch does not apply:", r.stdout)
        sys.exit(1)
    changed = sh("git diff --stat", cwd=repo).stdout
    t = sh("cargo test --workspace --no-fail-fast --offline", cwd=repo)
    res = results(t.stdout)
    ran.append("cargo test --workspace --no-fail-fast --offline (with change): " + " | ".join(res))
    suite_ok = t.returncode == 0 and any("84 passed; 0 failed" in l for l in res) and any("141 passed; 0 failed" in l for l in res)
    print("suite with change:", res, "OK" if suite_ok else "NOT OK")
    ok &= suite_ok
    demo = f"{src}/demo.rs"
    shutil.copy(demo, repo + "/tests/demo.rs")
    d1 = sh("cargo test --test demo --offline", cwd=repo)
    fails_with = d1.returncode != 0 and "test result: FAILED" in d1.stdout
    ran.append("cargo test --test demo --offline (with change): " + " | ".join(results(d1.stdout)))
    print("demo with change:", results(d1.stdout), "fails as required" if fails_with else "DOES NOT FAIL")
    ok &= fails_with
    sh(f"git apply -R {patch}", cwd=repo)
    d2 = sh("cargo test --test demo --offline", cwd=repo)
    passes_without = d2.returncode == 0
    ran.append("cargo test --test demo --offline (without change): " + " | ".join(results(d2.stdout)))
    print("demo without change:", results(d2.stdout), "passes as required" if passes_without else "DOES NOT PASS")
    ok &= passes_without
    if ok:
        dst = f"/verif/seeded/{sid}"
        os.makedirs(dst, exist_ok=True)
        shutil.copy(patch, dst + "/patch.diff")
        shutil.copy(demo, dst + "/demo.rs")
        if os.path.exists(f"{src}/notes.md"):
            shutil.copy(f"{src}/notes.md", dst + "/notes.md")
        meta = {
            "id": sid,
            "property": prop,
            "files_changed": changed.strip().splitlines(),
            "needs_to_manifest": "see notes.md",
            "confirmed": ran,
            "checks": [prop],
            "caught_by": None,
        }
        if os.path.exists(dst + "/meta.json"):
            old = json.load(open(dst + "/meta.json"))
            for k in ("needs_to_manifest", "checks", "caught_by"):
                if old.get(k):
                    meta[k] = old[k]
        json.dump(meta, open(dst + "/meta.json", "w"), indent=1)
        print("kept as", dst)
    else:
        print("NOT kept")
finally:
    sh(f"git -C /repo worktree remove --force {repo}")
    shutil.rmtree(base, ignore_errors=True)
    sh("git -C /repo worktree prune")
sys.exit(0 if ok else 1)

#!/usr/bin/env python3
"""Sensitivity proof: apply hand-written property-breaking mutations (and the kept seeded
changes under /verif/seeded) one at a time to a SCRATCH worktree of /repo, rebuild the
simulator against it, and record which check reports a violation.

Nothing here touches /repo's working tree or /verif/evidence: the scratch worktree, a copy of
the simulator crate pointing at it, its target dir and all outputs live under /tmp/hposim-mut and
are removed at the end.

usage: tools/sensitivity.py [--only NAME] [--tests] [--keep] [--seeded]
"""
import json, os, shutil, subprocess, sys, time

BASE = os.environ.get("HPOSIM_MUT_BASE", "/tmp/hposim-mut")
REPO = BASE + "/repo"
SIM = BASE + "/sim"
TARGET = BASE + "/target"
OUT = BASE + "/out"
ENV = dict(os.environ, CARGO_NET_OFFLINE="true", CARGO_TARGET_DIR=TARGET, HPOSIM_OUT=OUT,
           HPOSIM_SCRATCH=BASE + "/scratch", HPOSIM_KNOWN="/verif/known_findings.txt")

# (name, property it should break, file, old, new, checks to run)
M = [
 ("c01-parents-cached-early", "C01", "src/term/internal.rs",
  "            !self.all_parents.is_empty()", "            !self.all_parents.is_empty() || self.id.as_u32() % 7 == 3", ["C01", "C16"]),
 ("c01-direct-parents-not-in-closure", "C01", "src/ontology/builder.rs",
  "        *term.all_parents_mut() = res.bitor(&parents);", "        *term.all_parents_mut() = if res.is_empty() { res.bitor(&parents) } else { res };", ["C01", "C16"]),
 ("c01-child-side-dropped-unchecked", "C01", "src/ontology/builder.rs",
  "        let parent = self.hpo_terms.get_unchecked_mut(parent_id.into());\n        parent.add_child(child_id);\n",
  "        let parent = self.hpo_terms.get_unchecked_mut(parent_id.into());\n        if parent.children().len() < 3 {\n            parent.add_child(child_id);\n        }\n", ["C01", "C09", "C08"]),
 ("c02-propagate-direct-parents-only", "C02", "src/ontology/builder.rs",
  "            let parents = term.all_parents().clone();\n            for parent in &parents {\n                self.link_gene_term(parent, gene_id)?;",
  "            let parents = term.all_parents().clone();\n            for parent in parents.iter().take(4) {\n                self.link_gene_term(parent, gene_id)?;", ["C02", "C16"]),
 ("c02-orpha-into-omim-set", "C02", "src/ontology/builder.rs",
  "        if term.add_orpha_disease(orpha_disease_id) {", "        if term.add_omim_disease(crate::annotations::AnnotationId::as_u32(&orpha_disease_id).into()) | term.add_orpha_disease(orpha_disease_id) {", ["C02", "C03"]),
 ("c02-bytes-omim-skip-propagation-when-linked", "C02", "src/ontology/builder.rs",
  "            for term in disease.hpo_terms() {\n                self.link_omim_disease_term(term, *disease.id())?;\n            }\n            self.omim_diseases.insert",
  "            for term in disease.hpo_terms().iter().skip(usize::from(disease.hpo_terms().len() > 2)) {\n                self.link_omim_disease_term(term, *disease.id())?;\n            }\n            self.omim_diseases.insert", ["C02", "C08", "C07"]),
 ("c03-orpha-total-from-omim", "C03", "src/ontology/builder.rs",
  "        let n_orpha_diseases = self.orpha_diseases.len();", "        let n_orpha_diseases = self.omim_diseases.len().max(self.orpha_diseases.len());", ["C03", "C16"]),
 ("c03-ic-inverted", "C03", "src/term/information_content.rs",
  "        Ok((current / total).ln() * -1.0)", "        Ok(if current > total { 0.0 } else { (current / total).ln() * -1.0 + if total > 12.0 { 1e-3 } else { 0.0 } })", ["C03"]),
 ("c07-replacement-truncated-u16", "C07", "src/term/internal.rs",
  "                .replacement\n                .unwrap_or(0u32.into())\n                .to_be_bytes()\n                .to_vec(),",
  "                .replacement\n                .map(|r| HpoTermId::from(crate::annotations::AnnotationId::as_u32(&r) & 0x0000_FFFF))\n                .unwrap_or(0u32.into())\n                .to_be_bytes()\n                .to_vec(),", ["C07"]),
 ("c07-version-day-lost", "C07", "src/ontology.rs",
  "        bytes.push(self.hpo_version.2);\n        bytes", "        bytes.push(self.hpo_version.2 & 0x1F);\n        bytes", ["C07"]),
 ("c08-final-length-test-removed", "C08", "src/ontology.rs",
  "        if section_start == bytes.len() {", "        if section_start <= bytes.len() {", ["C08"]),
 ("c08-orpha-read-for-v2", "C08", "src/ontology.rs",
  "        if bytes.version() > BinaryVersion::V2 {", "        if bytes.version() >= BinaryVersion::V2 && section_start < bytes.len() {", ["C08"]),
 ("c08-version-byte-4-accepted", "C08", "src/parser/binary/ontology.rs",
  "            3u8 => Ok(Bytes::new(&bytes[4..], super::BinaryVersion::V3)),", "            3u8 | 4u8 => Ok(Bytes::new(&bytes[4..], super::BinaryVersion::V3)),", ["C08"]),
 ("c08-v1-name-uses-name-len", "C08", "src/parser/binary/term.rs",
  "    let Ok(name) = String::from_utf8(bytes[9..total_len as usize].to_vec()) else {", "    let Ok(name) = String::from_utf8(bytes[9..(total_len as usize).min(9 + 200)].to_vec()) else {", ["C08"]),
 ("c09-not-row-kept-for-orpha", "C09", "src/parser.rs",
  "        if let Some(\"NOT\") = cols.next() {\n            return Ok(None);\n        };", "        if let Some(\"NOT\") = cols.next() {\n            if !line.starts_with(\"ORPHA\") {\n                return Ok(None);\n            }\n        };", ["C09"]),
 ("c09-name-split-at-last-colon", "C09", "src/parser/hp_obo.rs",
  "    line.split_once(\": \").expect(\"unable to parse line\")", "    line.rsplit_once(\": \").expect(\"unable to parse line\")", ["C09"]),
 ("c09-replaced-by-only-if-obsolete", "C09", "src/parser/hp_obo.rs",
  "        if let Some(replacement) = replaced_by {", "        if let (Some(replacement), true) = (replaced_by, obsolete == Some(\"true\")) {", ["C09"]),
 ("c10-duplicate-check-removed", "C10", "src/ontology/termarena.rs",
  "        if self.ids[id] == 0 {\n            let idx", "        if self.ids[id] == 0 || self.terms.len() % 5 == 0 {\n            let idx", ["C10", "C16"]),
 ("c10-name-search-case-folded", "C10", "src/ontology.rs",
  "            .find(|&disease| disease.name().contains(substring))", "            .find(|&disease| disease.name().to_lowercase().contains(&substring.to_lowercase()))", ["C10"]),
 ("c14-leaf-distance-longest", "C14", "src/term/hpoterm.rs",
  "            .min_by_key(Vec::len)", "            .max_by_key(Vec::len)", ["C14"]),
 ("c14-omim-only-phenotype-filter-dropped", "C14", "src/ontology.rs",
  "            if (omim_disease.hpo_terms() & &phenotype_ids).is_empty() {", "            if (omim_disease.hpo_terms() & &ids).is_empty() {", ["C14"]),
 ("c15-orpha-check-dropped", "C15", "src/ontology/builder.rs",
  "        if self.hpo_terms.get(term_id).is_none() {\n            return Err(HpoError::DoesNotExist);\n        }\n        self.add_orpha_disease(orpha_name, orpha_id);", "        self.add_orpha_disease(orpha_name, orpha_id);", ["C15"]),
 ("c16-closure-assumes-parents-first", "C16", "src/ontology/builder.rs",
  "        if !self.hpo_terms.get_unchecked(term_id).parents_cached() {\n            self.create_cache_of_grandparents(term_id);\n        }\n",
  "        if !self.hpo_terms.get_unchecked(term_id).parents_cached() && term_id.to_usize() % 3 != 0 {\n            self.create_cache_of_grandparents(term_id);\n        }\n", ["C16", "C01"]),
 ("c18-obsolete-dropped-from-chain", "C18", "src/ontology/comparison.rs",
  "            || obsolete.0 != obsolete.1\n", "", ["C18"]),
 ("c18-orpha-accessor-reads-omim", "C18", "src/ontology/comparison.rs",
  "            .filter(|disease| self.rhs.orpha_disease(disease.id()).is_none())", "            .filter(|disease| self.rhs.omim_disease(&crate::annotations::AnnotationId::as_u32(disease.id()).into()).is_none())", ["C18"]),
 ("c19-modifier-keeps-118-when-last", "C19", "src/ontology.rs",
  "            .filter(|id| id != &crate::PHENOTYPE_ID)\n            .collect();\n        Ok(())", "            .filter(|id| id != &crate::PHENOTYPE_ID || crate::annotations::AnnotationId::as_u32(id) > 200)\n            .take(5)\n            .collect();\n        Ok(())", ["C19"]),
 ("c09-version-month-day-swapped", "C09", "src/parser/hp_obo.rs",
  "                        version[5..7].parse().unwrap_or(0u8),\n                        version[8..10].parse().unwrap_or(0u8),", "                        version[8..10].parse().unwrap_or(0u8),\n                        version[5..7].parse().unwrap_or(0u8),", ["C09", "C16"]),
 ("c08-release-year-little-endian", "C08", "src/ontology/builder.rs",
  "            let year = u16::from_be_bytes([bytes[0], bytes[1]]);", "            let year = u16::from_le_bytes([bytes[0], bytes[1]]);", ["C08", "C07"]),
 ("c07-writer-swaps-month-and-day", "C07", "src/ontology.rs",
  "        bytes.push(self.hpo_version.1);\n        bytes.push(self.hpo_version.2);", "        bytes.push(self.hpo_version.2);\n        bytes.push(self.hpo_version.1);", ["C07"]),
 ("c19-default-modifier-keeps-phenotype-root", "C19", "src/ontology.rs",
  "            .children_ids()\n            .iter()\n            .filter(|id| id != &crate::PHENOTYPE_ID)\n            .collect();\n        Ok(())\n    }\n\n    /// Returns a binary representation of the Ontology's metadata",
  "            .children_ids()\n            .iter()\n            .collect();\n        Ok(())\n    }\n\n    /// Returns a binary representation of the Ontology's metadata", ["C19"]),
 ("c19-term-categories-descending", "C19", "src/term/hpoterm.rs",
  "            .filter(|cat| (self.all_parent_ids() | self.id()).contains(cat))\n            .collect()", "            .filter(|cat| (self.all_parent_ids() | self.id()).contains(cat))\n            .collect::<Vec<HpoTermId>>()\n            .into_iter()\n            .rev()\n            .collect()", ["C19"]),
 ("c10-name-filter-stops-after-first-gap", "C10", "src/annotations/omim_disease.rs",
  "        self.iter\n            .by_ref()\n            .find(|&item| item.name().contains(self.query))", "        self.iter\n            .by_ref()\n            .take(3)\n            .find(|&item| item.name().contains(self.query))", ["C10"]),
 ("c10-gene-by-name-prefix-match", "C10", "src/ontology.rs",
  "        self.genes.values().find(|&gene| gene.name() == symbol)", "        self.genes.values().find(|&gene| gene.name().starts_with(symbol) && !symbol.is_empty())", ["C10"]),
 ("c18-gene-delta-names-swapped", "C18", "src/ontology/comparison.rs",
  "        let names = (lhs.name().to_string(), rhs.name().to_string());\n\n        Self::delta(lhs_terms, rhs_terms, names, lhs.id().to_string())\n    }\n\n    /// Constructs a new [`AnnotationDelta`] by comparing two [`OmimDisease`]s",
  "        let names = (rhs.name().to_string(), lhs.name().to_string());\n\n        Self::delta(lhs_terms, rhs_terms, names, lhs.id().to_string())\n    }\n\n    /// Constructs a new [`AnnotationDelta`] by comparing two [`OmimDisease`]s", ["C18"]),
 ("c02-binary-gene-first-term-not-propagated", "C02", "src/ontology/builder.rs",
  "            for term in gene.hpo_terms() {\n                self.link_gene_term(term, *gene.id())?;", "            for term in gene.hpo_terms().iter().skip(usize::from(gene.hpo_terms().len() > 3)) {\n                self.link_gene_term(term, *gene.id())?;", ["C02", "C08"]),
 ("c09-gene-header-eats-first-row-after-hash-header", "C09", "src/parser.rs",
  "        if !trash.starts_with('#')\n", "        if trash.starts_with(\"#Format\") {\n            let mut more = String::new();\n            let _ = reader.read_line(&mut more);\n        }\n        if !trash.starts_with('#')\n", ["C09"]),
 ("c03-gene-ic-counts-omim-links", "C03", "src/ontology/builder.rs",
  "            let current_genes = term.genes().len();", "            let current_genes = term.genes().len().max(usize::from(term.omim_diseases().len() > 5));", ["C03"]),
 ("c14-links-to-root-dropped-for-deep-terms", "C14", "src/ontology.rs",
  "                if ids.contains(&parent) {\n                    builder.add_parent_unchecked(parent, *term.id());", "                if ids.contains(&parent) && !(parent == root.id() && term.parents().len() > 2) {\n                    builder.add_parent_unchecked(parent, *term.id());", ["C14", "C01"]),
 ("harness-state-leak-between-ontologies-replays-with-history", "C19", "src/ontology.rs",
  "        self.modifier = self\n            .hpo(1u32)\n            .ok_or(HpoError::DoesNotExist)?\n            .children_ids()\n            .iter()\n            .filter(|id| id != &crate::PHENOTYPE_ID)\n            .collect();\n        Ok(())",
  "        static FIRST: std::sync::OnceLock<HpoGroup> = std::sync::OnceLock::new();\n        let computed: HpoGroup = self\n            .hpo(1u32)\n            .ok_or(HpoError::DoesNotExist)?\n            .children_ids()\n            .iter()\n            .filter(|id| id != &crate::PHENOTYPE_ID)\n            .collect();\n        self.modifier = FIRST.get_or_init(|| computed).clone();\n        Ok(())", ["C19"]),
 ("harness-process-abort-is-reported", "C10", "src/ontology.rs",
  "    pub fn hpo_version(&self) -> String {\n", "    pub fn hpo_version(&self) -> String {\n        if self.len() == 7 {\n            return self.hpo_version();\n        }\n", ["C10"]),
 ("c19-is-modifier-ancestors-only", "C19", "src/term/hpoterm.rs",
  "            .any(|modifier_root| (self.all_parent_ids() | self.id()).contains(&modifier_root))", "            .any(|modifier_root| self.all_parent_ids().contains(&modifier_root))", ["C19"]),
]


def sh(cmd, cwd=None, env=ENV, timeout=3600):
    return subprocess.run(cmd, shell=True, cwd=cwd, env=env, stdout=subprocess.PIPE, stderr=subprocess.STDOUT, text=True, timeout=timeout)


def setup():
    shutil.rmtree(BASE, ignore_errors=True)
    os.makedirs(BASE)
    sh("git -C /repo worktree prune")
    r = sh(f"git -C /repo worktree add -q --detach {REPO} HEAD")
    assert r.returncode == 0, r.stdout
    rev = sys.argv[sys.argv.index("--rev") + 1] if "--rev" in sys.argv else None
    if rev:
        # measure with the simulator as it was at an earlier commit of /verif ("before" column of the catches table)
        r = sh(f"git -C /verif archive {rev} sim | tar -x -C {BASE}")
        assert r.returncode == 0, r.stdout
    else:
        shutil.copytree("/verif/sim", SIM, ignore=shutil.ignore_patterns("target"))
    t = open(SIM + "/Cargo.toml").read().replace('path = "/repo"', f'path = "{REPO}"')
    open(SIM + "/Cargo.toml", "w").write(t)
    c = open(SIM + "/.cargo/config.toml").read().replace("/verif/target", TARGET)
    open(SIM + "/.cargo/config.toml", "w").write(c)


def teardown():
    sh(f"git -C /repo worktree remove --force {REPO}")
    shutil.rmtree(BASE, ignore_errors=True)
    sh("git -C /repo worktree prune")


def run_checks(checks, runs=None):
    res = {}
    b = sh("cargo build --release --offline", cwd=SIM)
    if b.returncode != 0:
        return {"build": "FAILED: " + b.stdout[-800:]}
    for c in checks:
        extra = f" --runs {runs}" if runs else ""
        r = sh(f"{TARGET}/release/hposim check {c} quick{extra}", cwd=SIM)
        lines = [l for l in r.stdout.splitlines() if l.startswith("VIOLATION") or l.startswith("  class=")]
        res[c] = {"exit": r.returncode, "classes": [l.strip() for l in lines if l.startswith("  class=")][:4]}
        # every reported replay file must reproduce the violation in a fresh process, twice, with the same digest
        paths = [l.split("replay=")[1].strip() for l in lines if l.startswith("VIOLATION") and "replay=" in l][:2]
        rep = []
        for pth in paths:
            outs = [sh(f"{TARGET}/release/hposim replay {pth}", cwd=SIM) for _ in range(2)]
            dig = [[l for l in o.stdout.splitlines() if l.startswith("replay of")] for o in outs]
            rep.append({"file": os.path.basename(pth), "exit": [o.returncode for o in outs], "same_digest": dig[0] == dig[1], "violation_line": all("VIOLATION" in o.stdout for o in outs)})
        res[c]["replays"] = rep
    return res


def main():
    only = sys.argv[sys.argv.index("--only") + 1].split(",") if "--only" in sys.argv else None
    tests = "--tests" in sys.argv
    results = []
    setup()
    try:
        items = []
        if "--seeded" not in sys.argv:
            for (name, prop, f, old, new, checks) in M:
                items.append((name, prop, ("replace", f, old, new), checks))
        if "--seeded" in sys.argv and os.path.isdir("/verif/seeded"):
            for d in sorted(os.listdir("/verif/seeded")):
                meta = f"/verif/seeded/{d}/meta.json"
                if os.path.exists(meta):
                    m = json.load(open(meta))
                    items.append((d, m["property"], ("patch", f"/verif/seeded/{d}/patch.diff"), m.get("checks", [m["property"]])))
        for (name, prop, how, checks) in items:
            if only and name not in only:
                continue
            t0 = time.time()
            sh("git checkout -q -- . && git clean -fdq src tests", cwd=REPO)
            if how[0] == "replace":
                _, f, old, new = how
                s = open(f"{REPO}/{f}").read()
                if old not in s:
                    results.append({"name": name, "property": prop, "error": "pattern not found"})
                    print(name, "PATTERN NOT FOUND", flush=True)
                    continue
                open(f"{REPO}/{f}", "w").write(s.replace(old, new, 1))
            else:
                r = sh(f"git apply {how[1]}", cwd=REPO)
                if r.returncode != 0:
                    results.append({"name": name, "property": prop, "error": "patch does not apply: " + r.stdout[-300:]})
                    print(name, "PATCH DOES NOT APPLY", flush=True)
                    continue
            entry = {"name": name, "property": prop}
            if tests:
                tr = sh(f"CARGO_TARGET_DIR={BASE}/target-tests cargo test --workspace --no-fail-fast --offline 2>&1 | grep -E '^test result' ", cwd=REPO)
                entry["existing_tests"] = tr.stdout.strip().splitlines()
            entry["checks"] = run_checks(checks)
            entry["caught_by"] = [c for c, v in entry["checks"].items() if isinstance(v, dict) and v.get("exit") == 1]
            entry["wall_s"] = round(time.time() - t0, 1)
            results.append(entry)
            print(name, "caught by", entry["caught_by"], {c: v.get("classes") if isinstance(v, dict) else v for c, v in entry["checks"].items()}, flush=True)
        os.makedirs("/verif/sensitivity", exist_ok=True)
        tag = "seeded" if "--seeded" in sys.argv else "own"
        if "--rev" in sys.argv:
            tag += "-at-" + sys.argv[sys.argv.index("--rev") + 1][:7]
        path = f"/verif/sensitivity/results-{tag}.json"
        if only and os.path.exists(path):
            old = [e for e in json.load(open(path)) if e["name"] not in [r["name"] for r in results]]
            results = old + results
        json.dump(results, open(path, "w"), indent=1)
    finally:
        if "--keep" not in sys.argv:
            teardown()


if __name__ == "__main__":
    main()

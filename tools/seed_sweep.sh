#!/bin/bash
# false-alarm sweep: every claimed check, quick tier, under several VERIF_SEED values; prints one line per (seed, property)
cd "$(dirname "$0")/.." || exit 2
export HPOSIM_OUT="${HPOSIM_OUT:-$PWD/sweep-out}"
mkdir -p "$HPOSIM_OUT"
for s in "$@"; do
  for p in C01 C02 C03 C07 C08 C09 C10 C14 C15 C16 C18 C19; do
    out=$(./check $p quick --seed $s 2>&1); rc=$?
    echo "seed=$s $p exit=$rc $(echo "$out" | grep -E '^done' | cut -c1-120) $(echo "$out" | grep -E '^(VIOLATION|HARNESS)' | head -3 | tr '\n' ' ')"
  done
done
